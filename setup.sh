#!/bin/sh
# Offline build of the overlay venv the checks run in (z3 + crosshair on top of /venv's numpy/scipy).
set -e
cd "$(dirname "$0")"
if [ ! -x .venv/bin/python ] || ! .venv/bin/python -c "import z3, numpy, scipy" 2>/dev/null; then
  rm -rf .venv
  /venv/bin/python -m venv .venv
  SP=$(.venv/bin/python -c "import site; print(site.getsitepackages()[0])")
  echo "import site; site.addsitedir('/venv/lib/python3.12/site-packages')" > "$SP/overlay.pth"
  PIP_NO_INDEX=1 .venv/bin/pip install -q --no-index --find-links /opt/veriftools/wheels z3-solver
  PIP_NO_INDEX=1 .venv/bin/pip install -q --no-index --find-links /opt/veriftools/wheels crosshair-tool || echo "setup: crosshair-tool not installed (optional)"
fi
.venv/bin/python -c "import z3, numpy, scipy; print('setup ok: z3', z3.get_version_string(), 'numpy', numpy.__version__)"
