#!/bin/sh
# tools/confirm_seed.sh <PROP> <k> : confirm a seeded change from /tmp/seed/<PROP>/<k> in a scratch worktree of /repo HEAD
# (demo passes clean / fails patched, pinned test-suite unchanged with the patch) and store it under /verif/seeded/<PROP>-<k>/
ID=$1; K=$2; SRC=${SEEDROOT:-/tmp/seed}/$ID/${SRCK:-$K}; WT=/tmp/cs_${ID}_$K; OUT=/verif/seeded/$ID-$K
[ -f $SRC/patch.diff ] || { echo "no patch in $SRC"; exit 1; }
git -C /repo worktree remove --force $WT >/dev/null 2>&1; rm -rf $WT
git -C /repo worktree add --detach $WT HEAD >/dev/null 2>&1 || exit 1
cd $WT
timeout 300 /venv/bin/python $SRC/demo.py > $WT/.demo_clean.log 2>&1; DC=$?
if git apply $SRC/patch.diff 2>/dev/null || git apply -3 $SRC/patch.diff 2>/dev/null; then AP=1; else AP=0; fi
git diff > $WT/.patch_rebased.diff
timeout 300 /venv/bin/python $SRC/demo.py > $WT/.demo_patched.log 2>&1; DP=$?
timeout 1500 /venv/bin/python -m pytest -q -p no:cacheprovider --timeout=900 --continue-on-collection-errors -x --co -q >/dev/null 2>&1
timeout 1800 /venv/bin/python -m pytest -ra -q -p no:cacheprovider --timeout=900 --continue-on-collection-errors > $WT/.suite.log 2>&1
SUM=$(tail -1 $WT/.suite.log)
FAILED=$(grep -E "^FAILED" $WT/.suite.log | sed 's/ - .*//' | sort | tr '\n' ' ')
mkdir -p $OUT
cp $WT/.patch_rebased.diff $OUT/patch.diff; cp $SRC/demo.py $OUT/demo.py; cp $SRC/notes.md $OUT/notes.md 2>/dev/null
/venv/bin/python - "$ID" "$K" "$AP" "$DC" "$DP" "$SUM" "$FAILED" "$OUT" <<'PY'
import sys, json
ID,K,AP,DC,DP,SUM,FAILED,OUT=sys.argv[1:]
base={"test/clustering_test.py::test_agreement","test/clustering_test.py::test_consensus","test/clustering_test.py::test_path_transitivity","test/duecredit_test.py::test_duecredit","test/modularity_derived_metrics_test.py::test_gateway","test/modularity_test.py::test_modularity_finetune_und","test/modularity_test.py::test_modularity_louvain_und","test/modularity_test.py::test_modularity_und","test/very_long_test.py::test_link_communities"}
failed=set(x.replace('FAILED ','') for x in FAILED.split('FAILED') if x.strip()); failed={f.strip() for f in failed}
meta=dict(property=ID, seed=int(K), patch_applies_on_repo_head=bool(int(AP)), demo_exit_clean=int(DC), demo_exit_patched=int(DP),
          suite_summary=SUM, suite_failed=sorted(failed), suite_same_as_baseline=(failed==base),
          confirmed=bool(int(AP)) and int(DC)==0 and int(DP)!=0 and failed==base,
          ran=["demo.py on a clean scratch worktree of /repo HEAD", "demo.py with patch.diff applied", "pinned pytest suite with patch.diff applied"])
try:
    old=json.load(open(OUT+'/meta.json')); 
    for k in ('needs','detected_by','check_result'): 
        if k in old: meta[k]=old[k]
except Exception: pass
json.dump(meta,open(OUT+'/meta.json','w'),indent=1); print(ID,K,'confirmed' if meta['confirmed'] else 'NOT CONFIRMED',meta['demo_exit_clean'],meta['demo_exit_patched'],SUM)
PY
cd /; git -C /repo worktree remove --force $WT >/dev/null 2>&1; rm -rf $WT
