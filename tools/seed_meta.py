#!/usr/bin/env python3
"""fill in detected_by / needs in seeded/*/meta.json from the table below (results of tools/try_seed.sh runs)"""
import json, os, glob, re
V = os.path.dirname(os.path.dirname(os.path.abspath(__file__)))
DET = {
 'C01-1': ('C01', 'edge_list_names_present_edge after the first accepted swap (hook) and degree obligations'), 'C01-2': ('C01', 'ret:out_strength on randmio_dir_connected/sc5'),
 'C02-1': ('C02', 'q_equals_definition on community_louvain/u6pairs_b (multi-level 6-node case)'), 'C02-2': ('C02', 'q_equals_definition on modularity_und_sign evaluator with no negative weights'),
 'C03-1': ('C03,C12', 'distance_is_min_path_length on distance_wei_floyd/log'), 'C03-2': ('C03', 'distance_is_min_hops / reach flags on reachdist'),
 'C04-1': ('C04,C08', 'node_vector_permuted on betweenness_wei with 0/1 input (n=4) and C08 brute-force counts'), 'C04-2': ('C04', 'pair_matrix_permuted on matching_ind'),
 'C05-1': ('C05', 'integer_seed_builds_one_generator on null_model_und_sign (two generators built from one int seed)'), 'C05-2': ('C05', 'global_stream_untouched_when_seeded on the signed rewiring routines'),
 'C06-1': ('C06', 'neg_in/out_degree on randmio_und_signed'), 'C06-2': ('C06', 'diagonal_empty / signed_weight_multiset on randmio_dir_signed'),
 'C07-1': ('C07,C02', 'not_worse_than_start on community_louvain/u6pairs_c/start112234 (second-level move of module 1 into module 3 corrupts the relabelling); also C02 q_equals_definition'),
 'C07-2': ('C07', 'not_worse_than_start on modularity_finetune_und_sign/s4/start1122'),
 'C08-1': ('C08', 'node betweenness vs brute-force counts; edge routine node vector'), 'C08-2': ('C08', 'edge betweenness vs brute-force counts'),
 'C09-1': ('C09', 'ret_neg:equals_triangle_definition on clustering_coef_wu_sign'), 'C09-2': ('C09', 'zero_when_fewer_than_two_neighbours on clustering_coef_bd'),
 'C10-1': ('C10', 'betweenness_wei = betweenness_bin on 6-node 0/1 families'), 'C10-2': ('C10', 'transitivity_bd = transitivity_bu on symmetric input'),
 'C11-1': ('C11', 'swap:connected on randmio_dir_connected/sc5c'), 'C11-2': ('C11', 'lattice_cost_not_increased with a generic caller-supplied D'),
 'C12-1': ('C12,C03', 'empty_path_iff_unreachable / path_length on retrieve_shortest_path log'), 'C12-2': ('C12', 'failed_navigation_infinite_in_all_three'),
 'C13-1': ('C13', 'cell_unchanged on get_components, clique_communities, dice_pairwise_und, ...'), 'C13-2': ('C13', 'cell_unchanged on charpath(include_diagonal=True, include_infinite=False)'),
 'C14-1': ('C14', 'partition_distance symmetry / renaming'), 'C14-2': ('C14', 'diversity_coef_sign same_result_for_renamed_labels'),
 'C15-1': ('C15', 'reported_size on kcore_bd'), 'C15-2': ('C15', 'maximal#.. on score_wu (solver picks s equal to a strength)'),
 'C16-1': ('C16', 'one_label_per_node on get_components (isolated node 0)'), 'C16-2': ('C16', 'asymmetric_input_rejected'),
 'C17-1': ('C17', 'copy_true_argument_untouched on threshold_proportional'), 'C17-2': ('C17', 'normalize obligations'),
 'C18-1': (None, 'property C18 is not claimed (LAPACK)'), 'C18-2': (None, 'property C18 is not claimed (LAPACK)'),
 'C19-1': ('C19', 'marks_exactly_suprathreshold_edges / null / pvalue on the 2+3 stack (unequal group sizes)'), 'C19-2': ('C19', 'pvalue_is_fraction_of_null_at_least_component_size#2 on the 5-node stack (two components of different sizes)'),
 'C01-3': ('C01', 'ret:degree on randomizer_bin_und/n5/hub0 (check extended after this seed was first missed: hub + one connection on 5 nodes, hub/co-hub on 6)'),
 'C02-3': ('C02', 'q_equals_definition on modularity_finetune_und/u3/start111'), 'C03-3': ('C03', 'lambda_is_mean_distance / efficiency_is_mean_inverse_distance on charpath with unreachable pairs'),
 'C04-3': ('C04', 'node_vector_permuted on kcoreness_centrality_bu n=4'), 'C06-3': ('C06', 'signed degrees / weight multiset on null_model_dir_sign with wei_freq=1'),
 'C08-3': ('C08', 'edge_betweenness_bin on the 5-node families (check extended after this seed was first missed: all 5-node undirected graphs and a 5-node digraph family)'),
 'C10-3': ('C10', 'edge_betweenness_wei = edge_betweenness_bin on 6-node 0/1 families'), 'C12-3': ('C12', 'path_ends_at_target on retrieve_shortest_path n4dir'),
 'C13-3': ('C13', 'argfalff:cell_unchanged on pagerank_centrality (check extended after this seed was first missed: pagerank with a solve stub, asarray aliasing modelled)'),
 'C14-3': ('C14', 'same_result_for_renamed_labels on participation_coef'), 'C15-3': ('C15', 'coreness_is_largest_k_whose_core_contains_node on kcoreness_centrality_bu/n3'),
 'C17-3': ('C17', 'keeps_exactly_offdiag_entries_not_below_thr on threshold_absolute'), 'C20-3': ('C20', 'empty_diagonal on makeevenCIJ/n4/sz1'),
 'C05-3': ('C05', 'global_stream_untouched_when_seeded on makerandCIJdegreesfixed (found symbolically at once; the real-code replay first used the single seed 7 and did not reproduce -> replay now runs the scripted path and searches 17 integer seeds)'),
 'C07-3': ('C07', 'not_worse_than_start on modularity_finetune_und/p5w/start11455 (check extended after this seed was first missed: weighted 5-node graphs started from partitions whose labels differ from node indices)'),
 'C09-3': ('C09', 'zero_when_fewer_than_two_neighbours on clustering_coef_wd/n3'), 'C11-3': ('C11', 'lattice_cost_not_increased on latmio_und with symbolic weights'),
 'C16-3': ('C16', 'agrees_with_reachdist_distance (check extended after this seed was first missed: the distance matrix of reachdist is now compared, not only its reach flags)'),
 'C19-3': ('C19', 'null_is_largest_component_under_relabelling on the 2+3 stack'),
 'C20-1': ('C20', 'in/out_degree on makerandCIJdegreesfixed/211/121'), 'C20-2': ('C20', 'nearer_band_full_before_farther_used on makeringlatticeCIJ n=5'),
}
for d in sorted(glob.glob(os.path.join(V, 'seeded', '*'))):
    sid = os.path.basename(d); mp = os.path.join(d, 'meta.json')
    if not os.path.exists(mp): continue
    m = json.load(open(mp))
    det = DET.get(sid)
    if det:
        m['detected_by'] = det[0].split(',') if det[0] else []
        m['detection_note'] = det[1]
        m['check_command'] = 'tools/try_seed.sh seeded/%s/patch.diff <property> --tier quick' % sid
    notes = os.path.join(d, 'notes.md')
    if os.path.exists(notes) and 'needs' not in m:
        txt = open(notes).read()
        mm = re.search(r'(?is)(needs?[^\n]*\n(?:.*\n){0,4})', txt)
        m['needs'] = (mm.group(1).strip()[:600] if mm else txt[:400])
    json.dump(m, open(mp, 'w'), indent=1)
    print(sid, m.get('confirmed'), m.get('detected_by'))
