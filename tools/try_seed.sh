#!/bin/sh
# tools/try_seed.sh <patch.diff> <property> [extra check args]  -- apply a seeded change to /repo, run the check, undo
P=$1; ID=$2; shift 2
cd /repo && git diff --quiet || { echo "repo dirty"; exit 9; }
git -C /repo apply "$P" 2>/dev/null || git -C /repo apply -3 "$P" || { echo "PATCH DOES NOT APPLY"; exit 9; }
trap 'git -C /repo checkout -- . ; git -C /repo reset -q' EXIT INT TERM HUP
cd /verif && timeout 3000 ./check $ID --no-evidence "$@" > /tmp/try_seed.log 2>&1; RC=$?
git -C /repo checkout -- . ; git -C /repo reset -q
grep -E "^(VIOLATION|KNOWN|INCONCLUSIVE)" /tmp/try_seed.log | cut -c1-260 | head -6; tail -1 /tmp/try_seed.log | cut -c1-250
echo "exit=$RC"
