#!/bin/sh
# tools/run_all.sh [tier] : run every claimed check once, print one line per property
TIER=${1:-quick}
cd /verif
for id in $(python3 -c "import json;print(' '.join(c['property_id'] for c in json.load(open('MANIFEST.json'))['checks']))"); do
  S=$(date +%s); timeout ${PER:-3000} ./check $id --tier $TIER $NOEV > /tmp/runall_$id.log 2>&1; RC=$?; E=$(date +%s)
  echo "$id rc=$RC $((E-S))s $(tail -1 /tmp/runall_$id.log | cut -c1-160)"
  grep -h "^VIOLATION\|^INCONCLUSIVE" /tmp/runall_$id.log | cut -c1-220 | head -3
done
