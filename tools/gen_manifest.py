#!/usr/bin/env python3
"""Regenerate MANIFEST.json from the table below (keeps it valid and in one place)."""
import json, os, subprocess
V = os.path.dirname(os.path.dirname(os.path.abspath(__file__)))
props = [json.loads(l) for l in open(os.path.join(V, 'properties.jsonl'))]
TECH = 'bounded dynamic symbolic execution of the real bctpy functions over a symbolic NumPy facade; every path condition and assertion decided by z3 (QF_LRA/LIA with ite), counterexamples replayed on the real code'
NOTE = ('Trusted: the symx facade model of NumPy (every explored path sample is re-run on real numpy and compared), z3, exact-real model of floats. '
        'Bounds (node count, iterations, draw budget, enumerated case families) are in the evidence file; nothing is claimed outside them.')
CLAIMED = {
 'C01': dict(text='For every 4-node support family listed in the evidence, every non-zero real weight assignment and every sequence of random draws within the draw budget, the real rewiring/latticising routines are executed symbolically and degree/multiset/diagonal/symmetry/out-strength/edge-list invariants are proved by z3 on every path (and after every accepted swap through the hook).',
             ref='DESIGN.md section 4 C01'),
 'C02': dict(text='Optimisers (community_louvain with four objectives, Louvain/finetune/probtune und/dir/signed) run on concrete weight matrices with gamma symbolic in [1/2, 2] and every node visiting order (forked permutation draws; 6-node multi-level graphs with four first-level orders): labels exactly 1..k and |q - Q_definition(returned partition)| <= 1e-9 proved for every gamma on every trajectory; modularity_und/_dir/_und_sign with a given partition on fully symbolic weights.  Spectral mode (LAPACK eig) is not encoded.',
             ref='DESIGN.md section 4 C02'),
 'C07': dict(text='Same explorations as C02 (optimisers only) with the C07 assertions: Q_definition(result) >= Q_definition(start) - 1e-9 for every gamma and visiting order, hierarchy levels strictly increasing, and feeding a 3-node result back never lowers it.',
             ref='DESIGN.md section 4 C07'),
 'C11': dict(text='Same symbolic explorations as C01 with the C11 assertions: Boolean-closure connectivity of the matrix after every accepted swap and at return (connected / strongly connected 4-node supports, symbolic weights and draws), BCTParamError on every path for disconnected or asymmetric input, lattice cost never increased for a caller-supplied D (symbolic weights with circular D; symbolic D with unit weights), and the symmetric symbolic mask of randomize_graph_partial_und respected.',
             ref='DESIGN.md section 4 C11'),
 'C05': dict(text='Non-interference between labelled random streams, per seed-accepting routine (30 routines): inside bct, np.random is a stub whose global generator raises when touched and whose RandomState constructor reports each construction. With a generator object as seed no construction and no global draw may occur on any explored path; with an integer seed exactly one generator is built from it (nested calls forward the object) and the global stream stays untouched; hence every explored result is a function of arguments and the one permitted stream. get_rng contract checked separately. Replays compare numpy global state before/after and int seed vs RandomState(int) on the real code.',
             ref='DESIGN.md section 4 / harness/c05.py',
             technique='bounded dynamic symbolic execution with labelled symbolic random streams (reachability of a forbidden draw / construction decided per path by z3-checked feasibility), replay on the real code'),
 'C06': dict(text='randmio_und_signed / randmio_dir_signed run on fully symbolic signed matrices (every off-diagonal entry an unconstrained real, the randint(n**4) draw symbolic): per-node positive/negative in/out degree, signed weight multisets, empty diagonal and symmetry are proved on every path; null_model_*_sign run on enumerated signed matrices with symbolic draws and a recording np.corrcoef stub.',
             ref='DESIGN.md section 4 C06'),
 'C13': dict(text='For 80+ public functions x enumerated argument templates x option variants, every array argument carries an unconstrained symbolic diagonal; after the call (return or exception) z3 proves cell by cell that the argument still holds its original terms on every explored path (path cap per case); a concrete non-zero diagonal variant backs up functions whose dependence on the diagonal is non-linear. pagerank_centrality runs with np.linalg.solve stubbed (arbitrary positive vector).',
             ref='DESIGN.md section 4 C13'),
 'C03': dict(text='distance_bin, reachdist, breadthdist, efficiency_bin and charpath on symbolic adjacency bits (all directed graphs on <= 4 nodes in one exploration) against Boolean k-step reachability; distance_wei, distance_wei_floyd (None/inv/log), efficiency_wei and rout_efficiency with every cell a symbolic length >= 0 (support and ties symbolic) against the minimum over all enumerated simple paths: distances, infinity iff unreachable, reach flags, zero diagonal, hop counts of some shortest path, mean and mean inverse distance.',
             ref='DESIGN.md section 4 C03'),
 'C04': dict(text='For 50 (measure, input kind) entries and the generators of S_n (plus seeded permutations), f(A) and f(A[p][:,p]) are run in one exploration on every labelled graph of the bound with symbolic weights / cube-root weights / lengths, and f(A_p) = permute(f(A)) is proved element-wise (node vectors, pair matrices, scalars and distributions, partitions).  LAPACK-based measures (pagerank, eigenvector, subgraph centrality) are not encoded and not claimed.',
             ref='DESIGN.md section 4 C04'),
 'C08': dict(text='betweenness_wei / edge_betweenness_wei with every cell a symbolic length >= 0: each explored path is one support + tie structure (the routines fork on Duw < D[w] / Duw == D[w]) valid for all length assignments realising it; node and edge values are compared exactly (rationals) with a brute-force count over enumerated simple paths whose "is shortest" questions the solver decides under the path condition; binary routines per labelled graph incl. the sum identities; edge routines\' node vector equals the node routines\'.',
             ref='DESIGN.md section 4 C08'),
 'C09': dict(text='All nine clustering / transitivity routines on every labelled graph of the bound (bits forked), with the cube roots c_ij in (0,1] of the weights symbolic (the routine receives c^3) and, for the signed variant, the sign pattern forked: C[u] x denominator = triple-sum numerator (polynomial identities settled by normal form or z3), exactly 0 for nodes with fewer than two neighbours or no triangle, [0,1] for the binary routines, transitivity = triangle/triple ratio.',
             ref='DESIGN.md section 4 C09'),
 'C10': dict(text='Relational checks inside one exploration: weighted vs binary routine on every 0/1 graph of the bound (plus 6-node families for the path-counting pairs), directed vs undirected routine on symmetric input with symbolic cube-root weights, and weight-ignoring routines on symbolic positive weights vs the binarised matrix; outputs compared element-wise (z3 / polynomial normal form).',
             ref='DESIGN.md section 4 C10'),
 'C12': dict(text='distance_wei_floyd on a fully symbolic length matrix (support, lengths, ties; one path thanks to masked views) followed by retrieve_shortest_path(s, t): start, end, every hop along an existing connection, hop count = hops[s,t], summed length = SPL[s,t], empty iff unreachable, for all three transforms; navigation_wu with symbolic lengths and symbolic nodal distances: every stored walk, the three path-length matrices, failure = infinite in all three, success ratio.',
             ref='DESIGN.md section 4 C12'),
 'C14': dict(text='For every set partition of 3-4 nodes and several injective relabelings (reversed, 7p+3, zero-based, large sparse), each partition-consuming function is run twice in one exploration on the same input (weights symbolic for participation_coef and the modularity evaluators, enumerated matrices where the measure takes logs or square roots) and the outputs are proved equal; partition_distance (symmetry, renaming invariance, zero/unit iff same partition, range) and the ci2ls/ls2ci round trip are enumerated over all pairs of partitions of 4 nodes (no real-valued input there). agreement is not encoded (scipy.sparse).',
             ref='DESIGN.md section 4 C14'),
 'C15': dict(text='kcore_bu / kcore_bd / score_wu run on symbolic adjacency bits (all graphs of the size in one exploration), symbolic k (Int) / s and weights (Real); z3 proves membership-meets-bound, output = input restricted to the core, reported size, maximality against all 2^n node subsets, and nestedness for k and k+1; peel lists and k-coreness are checked per labelled graph (bits forked) against an independent peeling.',
             ref='DESIGN.md section 4 C15'),
 'C16': dict(text='get_components / number_of_components on a symbolic symmetric real matrix with arbitrary diagonal: one path per labelled graph on <= 5 nodes (all 1024+), same-label iff connected in the Boolean closure, labels 1..m, sizes, agreement with distance_bin / breadthdist / reachdist, and BCTParamError on every path for asymmetric input.',
             ref='DESIGN.md section 4 C16'),
 'C17': dict(text='threshold_proportional with all entries and p symbolic (ties, zeros and the .5 rounding boundary are solver cases; argsort modelled as an arbitrary sorted permutation): kept count = min(round-half-away(p x possible), present), strongest kept, diagonal cleared, symmetry, copy semantics; threshold_absolute, binarize, normalize, invert (twice), weight_conversion and teachers_round against their definitions on fully symbolic 3x3 matrices.',
             ref='DESIGN.md section 4 C17'),
 'C19': dict(text='nbs_bct (unpaired test) on enumerated integer-valued subject stacks (4 nodes: groups 2+3 and 3+3 with a zero-variance edge; 5 nodes: two components of different sizes), with the threshold a symbolic real in [0,8] (z3 decides every interval between the statistics), tail in both/left/right, k in 1..2 and each subject relabelling a symbolic choice from a seeded list: marked connections = supra-threshold connections of the oracle t statistic, one label 1..m per component, one p-value per component, null value = largest component under the relabelling drawn, p = fraction of null values >= component size, error only when nothing exceeds the threshold. Data and relabellings are enumerated (sqrt of data), so this is the weakest claim of the set; paired=True is not encoded.',
             ref='DESIGN.md section 4 C19'),
 'C20': dict(text='Generators run with every RandomState draw symbolic and K symbolic over its feasible range: shape, 0/1 values, empty diagonal, exact connection count, symmetry, band structure of the ring lattice, reported count of the fractal generator, and in/out degree sequences of makerandCIJdegreesfixed, proved on every explored path.',
             ref='DESIGN.md section 4 C20'),
}
NA = {
 'C18': 'solver-based checking does not apply: mean_first_passage_time, subgraph_centrality and eigenvector_centrality_und are LAPACK eigen-decompositions / inverses in floating point; no contract stub for eig/inv is expressible in the SMT theories available, and the degenerate-eigenspace concern has no counterpart in an exact-real model; findwalks/pagerank alone are a fragment (DESIGN.md section 8)',
}
def repo_hook_commits():
    try:
        out = subprocess.run(['git', '-C', '/repo', 'log', '--format=%h %s'], capture_output=True, text=True).stdout.splitlines()
        return [l.split()[0] for l in out if 'verif hook' in l]
    except Exception: return []
m = {"version": 1, "setup_cmd": "./setup.sh",
     "hooks": {"guard": "BCTPY_VERIF", "enable": "env BCTPY_VERIF=1 (read when bct.utils.miscellaneous_utilities is imported; callback installed by the harness)",
               "baseline_off_cmd": "cd /repo && env -u BCTPY_VERIF /venv/bin/python -m pytest -ra -q -p no:cacheprovider --timeout=900 --continue-on-collection-errors",
               "source_commits": repo_hook_commits(), "add_only": True},
     "engines": [{"name": "symx", "path": "/verif/symx", "serves_properties": sorted(CLAIMED),
                  "kind_free_text": "dynamic symbolic executor for the real bctpy functions (symbolic ndarray subclass + np proxy + symbolic RandomState), z3 back end, decision-replay path exploration sharded over 16 processes"}],
     "checks": [], "not_applicable": [],
     "notes": "exit 0 = all obligations discharged; exit 1 = VIOLATION (solver counterexample reproduced on the real code, not a listed known finding); exit 2 = inconclusive (solver unknown, unsupported operation, non-reproducing counterexample, vacuity guard). known_findings.json is read-only at run time."}
for p in props:
    i = p['id']
    if i in CLAIMED:
        c = CLAIMED[i]
        m['checks'].append({"property_id": i, "quick_cmd": "./check %s --tier quick" % i, "thorough_cmd": "./check %s --tier thorough" % i,
                            "evidence_file": "/verif/evidence/%s.json" % i, "replay_cmd_template": "./check %s --replay {path}" % i, "engine": "symx",
                            "level_claimed": {"category": "model_checking", "text": c['text'], "design_ref": c['ref']},
                            "level_note": c.get('note', NOTE), "technique": c.get('technique', TECH)})
    else:
        m['not_applicable'].append({"property_id": i, "reason": NA.get(i, "check not built yet in this commit (build in progress; DESIGN.md section 7)")})
json.dump(m, open(os.path.join(V, 'MANIFEST.json'), 'w'), indent=1)
print('claimed', sorted(CLAIMED), 'n/a', len(m['not_applicable']))
