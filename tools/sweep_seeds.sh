#!/bin/sh
# tools/sweep_seeds.sh : apply every seeded change in turn, run the quick tier of the check(s) listed in its meta.json, record the outcome
cd /verif
for d in seeded/*/; do
  sid=$(basename $d)
  props=$(python3 -c "import json;print(' '.join(json.load(open('$d/meta.json')).get('detected_by',[])[:1]))")
  [ -z "$props" ] && continue
  for p in $props; do
    tools/try_seed.sh /verif/$d/patch.diff $p --tier quick > /tmp/sweep_$sid.log 2>&1
    rc=$(grep -o "exit=[0-9]*" /tmp/sweep_$sid.log | tail -1)
    echo "$sid $p $rc"
    python3 - "$d/meta.json" "$p" "$rc" <<'PY'
import json,sys
m=json.load(open(sys.argv[1])); m.setdefault('last_sweep',{})[sys.argv[2]]=sys.argv[3]; json.dump(m,open(sys.argv[1],'w'),indent=1)
PY
  done
done
git -C /repo status --short
