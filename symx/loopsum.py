"""Redundant-state pruning at random-draw sites.

A rejection loop (`while True: draw; if ok: break`, `while e1 == e2: e2 = draw`, recursive re-draw) returns to the same
draw site with exactly the same live program state.  Draws are independent symbolic values, so a draw sequence
prefix.rejected.suffix drives the code exactly like prefix.suffix, which is explored anyway.  Such revisits are therefore
cut as *redundant* (inside the claim), instead of being explored until the draw budget prunes them (outside the claim).

"Same live state" = for every bct frame on the stack: same code, same line, and identical values of all local variables
that are live at that line (classic backward liveness over the bytecode of the *untransformed* function; variables
overwritten before being read -- the rejected draws themselves -- are dead and do not count).
"""
import dis, sys, inspect, types
import numpy as np

_LIVE = {}       # (filename, name, firstlineno) -> {line: frozenset(live names)} or None (= everything live)
_ORIG = {}       # filename -> {(name, firstlineno): code}

USE = {'LOAD_FAST', 'LOAD_FAST_CHECK', 'LOAD_FAST_AND_CLEAR', 'LOAD_DEREF', 'LOAD_CLOSURE', 'DELETE_FAST', 'DELETE_DEREF'}
DEF = {'STORE_FAST', 'STORE_DEREF'}


def _codes(co, out):
    out[(co.co_name, co.co_firstlineno)] = co
    for c in co.co_consts:
        if isinstance(c, types.CodeType): _codes(c, out)


def original_code(filename, name, firstlineno):
    tab = _ORIG.get(filename)
    if tab is None:
        tab = {}
        try:
            src = open(filename).read()
            _codes(compile(src, filename, 'exec'), tab)
        except Exception:
            pass
        _ORIG[filename] = tab
    return tab.get((name, firstlineno))


def liveness(co):
    """line -> set of local names live at the first instruction of that line; None if not analysable"""
    if co.co_exceptiontable: return None
    ins = list(dis.get_instructions(co))
    if not ins: return None
    idx = {i.offset: k for k, i in enumerate(ins)}
    succ = []
    for k, i in enumerate(ins):
        s = []
        op = i.opname
        if op in ('RETURN_VALUE', 'RETURN_CONST', 'RAISE_VARARGS', 'RERAISE'):
            pass
        elif op in ('JUMP_FORWARD', 'JUMP_BACKWARD', 'JUMP_BACKWARD_NO_INTERRUPT', 'JUMP_ABSOLUTE'):
            s.append(idx[i.argval])
        else:
            if k + 1 < len(ins): s.append(k + 1)
            if i.opcode in dis.hasjrel or i.opcode in dis.hasjabs:
                if i.argval in idx: s.append(idx[i.argval])
            if op == 'FOR_ITER' and i.argval in idx: s.append(idx[i.argval])
        succ.append(s)
    live_in = [set() for _ in ins]
    changed = True
    while changed:
        changed = False
        for k in range(len(ins) - 1, -1, -1):
            i = ins[k]
            out = set()
            for s in succ[k]: out |= live_in[s]
            new = set(out)
            if i.opname in DEF: new.discard(i.argval)
            if i.opname in USE or i.opname == 'LOAD_FAST_AND_CLEAR': new.add(i.argval)
            if new != live_in[k]:
                live_in[k] = new; changed = True
    lines = {}
    cur = None
    for k, i in enumerate(ins):
        if i.starts_line is not None and i.starts_line not in lines:
            lines[i.starts_line] = frozenset(live_in[k])
    return lines


def live_at(frame):
    co = frame.f_code
    key = (co.co_filename, co.co_name, co.co_firstlineno)
    if key not in _LIVE:
        oc = original_code(*key)
        _LIVE[key] = liveness(oc) if oc is not None else None
    tab = _LIVE[key]
    if tab is None: return None
    return tab.get(frame.f_lineno)


def _sig(v, depth=0):
    from .ir import T
    from .sc import Ext
    from .arr import LazyIdx, MaskedVec, LazyRows, FlatView
    if isinstance(v, T): return ('t', v.id)
    if isinstance(v, Ext): return ('x', _sig(v.fin), _sig(v.inf))
    if isinstance(v, (bool, int, float, str, type(None))) or type(v).__name__ in ('Z', 'Fraction'): return v
    if isinstance(v, np.ndarray):
        if v.dtype == object: return ('a', v.shape, tuple(_sig(x, depth + 1) for x in v.view(np.ndarray).flat))
        return ('n', v.shape, v.tobytes())
    if isinstance(v, LazyIdx): return ('li', id(v.mask), v.axis, _sig(v._c) if v._c is not None else None)
    if isinstance(v, (MaskedVec, LazyRows, FlatView)): return ('lz', id(v))
    if isinstance(v, (list, tuple)) and depth < 3: return (type(v).__name__,) + tuple(_sig(x, depth + 1) for x in v)
    if isinstance(v, (set, frozenset)) and depth < 3: return ('set',) + tuple(sorted(repr(_sig(x, depth + 1)) for x in v))
    if isinstance(v, dict) and depth < 3: return ('dict',) + tuple(sorted((repr(k), repr(_sig(x, depth + 1))) for k, x in v.items()))
    if isinstance(v, np.random.RandomState): return ('rng',)
    if isinstance(v, (types.FunctionType, types.ModuleType, type)): return ('obj', id(v))
    if isinstance(v, (np.integer, np.floating, np.bool_)): return v.item()
    if isinstance(v, range): return ('range', v.start, v.stop, v.step)
    return ('id', id(v))


def state_signature():
    """signature of the live state of all bct frames on the stack (innermost first); None if not analysable"""
    f = sys._getframe(1)
    sigs = []
    while f is not None:
        fn = f.f_code.co_filename
        if '/bct/' in fn:
            live = live_at(f)
            if live is None: return None
            loc = f.f_locals
            names = set(live) | {k for k in loc if k.startswith('__symx_it')}
            vals = tuple((k, _sig(loc[k])) for k in sorted(names) if k in loc)
            s = (fn, f.f_code.co_firstlineno, f.f_lineno, vals)
            if sigs and sigs[-1][0] == fn and sigs[-1][1] == f.f_code.co_firstlineno:
                # direct recursion (re-draw by tail call): the outer activation is dropped when everything live in it
                # has the same value in the inner activation
                inner = dict(sigs[-1][3])
                if all(k in inner and inner[k] == v for k, v in vals):
                    f = f.f_back; continue
            sigs.append(s)
        f = f.f_back
    if not sigs: return None
    try:
        return hash(tuple(sigs))
    except TypeError:
        return None
