"""Random sources: SymRNG (every draw is a fresh solver variable) and ScriptedRandomState (replay)."""
import numpy as np
from . import ir, sc
from .ir import T, Unsupported, Z
from .engine import Engine, Prune

def E(): return Engine.cur

class SymRNG(np.random.RandomState):
    """Passes get_rng's isinstance test; "every seed" is over-approximated by "every sequence of in-range draws"."""
    def __init__(self, budget=50, stream='local', fork_perm=False, fork_int=False, perm_subset=None, unif_subset=None):
        super().__init__(0)
        self.budget = budget; self.draws = []; self.stream = stream
        self.fork_perm = fork_perm; self.fork_int = fork_int; self.perm_subset = perm_subset; self.unif_subset = unif_subset
        self.seen = set(); self.detect_redundant = True
    def _use(self):
        pass
    def _site(self):
        """called once per public draw call: cut the path if this draw site is revisited in an identical live state"""
        if self.detect_redundant:
            from . import loopsum
            sig = loopsum.state_signature()
            if sig is not None:
                if sig in self.seen: raise Prune('redundant: random-draw site revisited in an identical live state (rejected draw)')
                self.seen.add(sig)
        self.budget -= 1          # budget counts public RandomState calls (not elementary draws)
        if self.budget < 0: raise Prune('rng draw budget')
    def _int(self, low, high):
        from .arr import _ci
        low, high = _ci(low), _ci(high)
        if high <= low: raise ValueError('low >= high')
        self._use(); v = E().fresh(self.stream + '_randint', 'I', lo=low, hi=high, hi_open=True)
        if self.fork_int: v = E().concretize(v)
        self.draws.append(('randint', low, high, v)); return v
    def randint(self, low, high=None, size=None, dtype=int):
        from .arr import S
        if high is None: low, high = 0, low
        self._site()
        if size is None: return self._int(low, high)
        n = int(np.prod(size)); return S(np.array([self._int(low, high) for _ in range(n)], dtype=object).reshape(size), 'i')
    def _unif(self):
        self._use()
        if self.unif_subset:        # bound stated by the harness: each uniform draw is a (forked) choice among these values
            i = E().concretize(E().fresh(self.stream + '_randpick', 'I', lo=0, hi=len(self.unif_subset), hi_open=True))
            v = self.unif_subset[int(i)]
        else: v = E().fresh(self.stream + '_rand', 'R', lo=0, hi=1, hi_open=True)
        self.draws.append(('random_sample', v)); return v
    def random_sample(self, size=None):
        from .arr import S
        self._site()
        if size is None: return self._unif()
        n = int(np.prod(size)); return S(np.array([self._unif() for _ in range(n)], dtype=object).reshape(size), 'f')
    random = random_sample
    def rand(self, *shape):
        return self.random_sample(shape if shape else None)
    def uniform(self, low=0.0, high=1.0, size=None):
        u = self.random_sample(size)
        return low + (high - low) * u
    def permutation(self, x):
        from .arr import S, to_obj, sym_get, _ci
        if isinstance(x, (T, int, np.integer)):
            n = _ci(x); arr = None
        else:
            arr = S(x); n = len(arr)
        self._site(); self._use()
        vs = [E().fresh(self.stream + '_perm', 'I', lo=0, hi=n, hi_open=True) for _ in range(n)]
        for i in range(n):
            for j in range(i): E().assume(ir.ne(vs[i], vs[j]))
        if self.perm_subset:        # bound stated by the harness: only these node orders are explored
            ok = [p for p in self.perm_subset if len(p) == n]
            if ok: E().assume(ir.lor(*[ir.land(*[ir.eq(v, int(x)) for v, x in zip(vs, p)]) for p in ok]))
        if self.fork_perm: vs = [E().concretize(v) for v in vs]
        self.draws.append(('permutation', n, list(vs)))
        idx = S(np.array(vs, dtype=object), 'i') if n else S(np.zeros(0, dtype=int))
        if arr is None: return idx
        return arr[idx]
    def shuffle(self, x):
        p = self.permutation(len(x)); x[...] = x[p]
    def choice(self, a, size=None, replace=True, p=None):
        from .arr import S
        if p is not None: raise Unsupported('rng.choice with probabilities')
        self._site()
        pool = None if isinstance(a, (int, np.integer)) else S(a)
        n = int(a) if pool is None else len(pool)
        if size is None:
            v = self._int(0, n); return v if pool is None else pool[v]
        cnt = int(np.prod(size)); vs = []
        for _ in range(cnt):
            v = self._int(0, n)
            if not replace:
                for w in vs: E().assume(ir.ne(v, w))
            vs.append(v)
        idx = S(np.array(vs, dtype=object).reshape(size), 'i')
        return idx if pool is None else pool[idx]
    def seed(self, *a, **k): pass
    def get_state(self, *a, **k): raise Unsupported('rng.get_state')
    def normal(self, *a, **k): raise Unsupported('rng.normal')
    randn = normal

def eval_draws(draws, env):
    """concrete script of a draw log under a model"""
    out = []
    for d in draws:
        if d[0] == 'randint': out.append(['randint', int(d[1]), int(d[2]), int(sc.evaluate(d[3], env))])
        elif d[0] == 'random_sample': out.append(['random_sample', sc.evaluate(d[1], env)])
        elif d[0] == 'permutation': out.append(['permutation', int(d[1]), [int(sc.evaluate(v, env)) for v in d[2]]])
    return out

class ScriptExhausted(Exception): pass
class ScriptMismatch(Exception): pass

class ScriptedRandomState(np.random.RandomState):
    """returns the scripted draws in order; used to replay a solver model on the real code"""
    def __init__(self, script, strict=True):
        super().__init__(12345)
        self.script = list(script); self.pos = 0; self.strict = strict
    def _next(self, kind):
        if self.pos >= len(self.script): raise ScriptExhausted('script exhausted at draw %d (%s)' % (self.pos, kind))
        d = self.script[self.pos]; self.pos += 1
        if d[0] != kind: raise ScriptMismatch('draw %d: script has %s, code asked %s' % (self.pos - 1, d[0], kind))
        return d
    def randint(self, low, high=None, size=None, dtype=int):
        if high is None: low, high = 0, low
        def one():
            d = self._next('randint')
            if not (low <= d[3] < high): raise ScriptMismatch('randint range %s..%s vs scripted %s' % (low, high, d[3]))
            return d[3]
        if size is None: return one()
        n = int(np.prod(size)); return np.array([one() for _ in range(n)], dtype=int).reshape(size)
    def random_sample(self, size=None):
        def one(): return float(self._next('random_sample')[1])
        if size is None: return one()
        n = int(np.prod(size)); return np.array([one() for _ in range(n)], dtype=float).reshape(size)
    random = random_sample
    def rand(self, *shape): return self.random_sample(shape if shape else None)
    def uniform(self, low=0.0, high=1.0, size=None): return low + (high - low) * self.random_sample(size)
    def permutation(self, x):
        d = self._next('permutation')
        if isinstance(x, (int, np.integer)):
            if d[1] != x: raise ScriptMismatch('permutation size')
            return np.array(d[2], dtype=int)
        x = np.asarray(x)
        if d[1] != len(x): raise ScriptMismatch('permutation size')
        return x[np.array(d[2], dtype=int)]
    def shuffle(self, x):
        x[...] = self.permutation(x)
    def choice(self, a, size=None, replace=True, p=None):
        if p is not None: raise ScriptMismatch('choice variant')
        pool = None if isinstance(a, (int, np.integer)) else np.asarray(a)
        n = int(a) if pool is None else len(pool)
        idx = self.randint(0, n, size=size)
        return idx if pool is None else pool[idx]
