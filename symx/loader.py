"""Load the bct modules from today's source with boolean-operator merging and the np proxy installed."""
import ast, importlib, inspect, sys, types, hashlib
import numpy as np
from . import ir, sc, arr
from .ir import T

def _scalar(v):
    if isinstance(v, np.ndarray) and v.size == 1: return v.reshape(-1)[0]
    return v

class _Fallback(Exception): pass

def _merge(thunks, unit, comb):
    acc = unit; syms = []
    for th in thunks:
        v = _scalar(th())
        if isinstance(v, sc.Ext): v = sc.truth(v)
        if not isinstance(v, T):
            if isinstance(v, np.ndarray): v = bool(v)      # raises the usual ValueError for ambiguous arrays
            if bool(v) != unit: return not unit
            continue
        syms.append(v)
    return comb(*syms) if syms else unit

def symx_and(thunks, plain_eval):
    try: return _merge(thunks, True, ir.land)
    except (NameError, AttributeError, IndexError, KeyError, TypeError, ZeroDivisionError):
        return plain_eval()
def symx_or(thunks, plain_eval):
    try: return _merge(thunks, False, ir.lor)
    except (NameError, AttributeError, IndexError, KeyError, TypeError, ZeroDivisionError):
        return plain_eval()
def symx_not(v):
    v = _scalar(v)
    if isinstance(v, sc.Ext): v = sc.truth(v)
    return ir.lnot(v) if isinstance(v, T) else (not v)

def _lam(body):
    return ast.Lambda(args=ast.arguments(posonlyargs=[], args=[], kwonlyargs=[], kw_defaults=[], defaults=[]), body=body)

class BoolMerge(ast.NodeTransformer):
    """rewrite and/or/not inside the test of if/while so that symbolic operands fork once, not per operand"""
    def _pure(self, node):
        # operands with calls are evaluated eagerly by the merged form only if they are known side-effect free
        for n in ast.walk(node):
            if isinstance(n, (ast.NamedExpr, ast.Await, ast.Yield, ast.YieldFrom)): return False
            if isinstance(n, ast.Call):
                f = n.func
                name = f.attr if isinstance(f, ast.Attribute) else getattr(f, 'id', '')
                if name not in PURE_CALLS: return False
        return True
    def _t(self, node):
        if isinstance(node, ast.BoolOp) and self._pure(node):
            import copy
            thunks = [_lam(self._t(copy.deepcopy(v))) for v in node.values]
            fn = '__symx_and__' if isinstance(node.op, ast.And) else '__symx_or__'
            return ast.Call(func=ast.Name(id=fn, ctx=ast.Load()),
                            args=[ast.List(elts=thunks, ctx=ast.Load()), _lam(node)], keywords=[])
        if isinstance(node, ast.UnaryOp) and isinstance(node.op, ast.Not) and self._pure(node):
            return ast.Call(func=ast.Name(id='__symx_not__', ctx=ast.Load()), args=[self._t(node.operand)], keywords=[])
        return node
    nfor = 0
    def visit_For(self, node):
        # expose the hidden loop iterator position as a local (used by loopsum's state signature); semantics unchanged
        self.generic_visit(node)
        BoolMerge.nfor += 1
        cnt = ast.Name(id='__symx_it%d' % BoolMerge.nfor, ctx=ast.Store())
        node.target = ast.Tuple(elts=[cnt, node.target], ctx=ast.Store())
        node.iter = ast.Call(func=ast.Name(id='enumerate', ctx=ast.Load()), args=[node.iter], keywords=[])
        return node
    def visit_If(self, node):
        self.generic_visit(node); node.test = self._t(node.test); return node
    def visit_While(self, node):
        self.generic_visit(node); node.test = self._t(node.test); return node

PURE_CALLS = {'any', 'all', 'len', 'size', 'sum', 'abs', 'sign', 'isnan', 'isinf', 'logical_not', 'logical_or', 'logical_and',
              'allclose', 'max', 'min', 'where', 'array', 'isfinite', 'int', 'float', 'bool', 'isinstance', 'range', 'tuple'}

BCT_MODULES = ['bct.utils.miscellaneous_utilities', 'bct.utils.other', 'bct.algorithms.degree', 'bct.algorithms.distance',
               'bct.algorithms.modularity', 'bct.algorithms.clustering', 'bct.algorithms.core', 'bct.algorithms.centrality',
               'bct.algorithms.efficiency', 'bct.algorithms.similarity', 'bct.algorithms.reference',
               'bct.algorithms.physical_connectivity', 'bct.algorithms.motifs', 'bct.algorithms.generative', 'bct.nbs']

INSTALLED = {}

def install(merge=True, global_rng=None, modules=None):
    """transform the bct modules in place (this process only). Returns {module name: module}."""
    import bct
    mods = {}
    proxy = arr.NpProxy(random=global_rng)
    for name in (modules or BCT_MODULES):
        mod = importlib.import_module(name)
        src = inspect.getsource(mod)
        tree = ast.parse(src)
        if merge:
            tree = BoolMerge().visit(tree); ast.fix_missing_locations(tree)
        ns = mod.__dict__
        ns['__symx_and__'] = symx_and; ns['__symx_or__'] = symx_or; ns['__symx_not__'] = symx_not
        oldcls = {k: v for k, v in ns.items() if isinstance(v, type) and getattr(v, '__module__', None) == name}
        exec(compile(tree, mod.__file__, 'exec'), ns)
        ns.update(oldcls)            # keep class identity (exception classes are imported by value elsewhere)
        ns['np'] = proxy
        mods[name] = mod
        INSTALLED[name] = hashlib.sha256(src.encode()).hexdigest()
    # second pass: rebind cross-module imports and package-level re-exports to the new function objects
    owners = {}
    for name, mod in mods.items():
        for k, v in mod.__dict__.items():
            if isinstance(v, types.FunctionType) and v.__module__ == name: owners[(name, k)] = v
    targets = list(mods.values()) + [sys.modules[p] for p in ('bct', 'bct.algorithms', 'bct.utils') if p in sys.modules]
    for m in targets:
        for k, v in list(m.__dict__.items()):
            if isinstance(v, types.FunctionType) and (v.__module__, v.__name__) in owners:
                new = owners[(v.__module__, v.__name__)]
                if new is not v: m.__dict__[k] = new
    return mods, proxy

def source_hash(fn):
    try: return hashlib.sha256(inspect.getsource(fn).encode()).hexdigest()[:16]
    except Exception: return 'unavailable'
