"""Case runner: symbolic exploration of a harness body, concrete replay of the same body on the real code,
witness validation, evidence.  A harness body is written once against the Mode API and runs in both modes."""
import os, sys, time, json, signal, traceback, importlib, math, hashlib, random
from fractions import Fraction
import numpy as np

VERIF = os.path.dirname(os.path.dirname(os.path.abspath(__file__)))
REPO = os.environ.get('BCT_REPO', '/repo')


class CaseTimeout(BaseException): pass
class AssumptionFailed(Exception): pass


def _alarm(signum, frame): raise CaseTimeout('wall-clock budget')


def jsonable(x):
    if isinstance(x, dict): return {str(k): jsonable(v) for k, v in x.items()}
    if isinstance(x, (list, tuple)): return [jsonable(v) for v in x]
    if isinstance(x, np.ndarray): return jsonable(x.tolist())
    if isinstance(x, (bool, np.bool_)): return bool(x)
    if isinstance(x, (int, np.integer)): return int(x)
    if isinstance(x, Fraction):
        return int(x) if x.denominator == 1 else (float(x) if Fraction(float(x)) == x else str(x))
    if isinstance(x, (float, np.floating)):
        x = float(x)
        if math.isinf(x): return 'inf' if x > 0 else '-inf'
        if math.isnan(x): return 'nan'
        return x
    if x is None or isinstance(x, str): return x
    return repr(x)


def unjson_num(v):
    if isinstance(v, str):
        if v == 'inf': return float('inf')
        if v == '-inf': return float('-inf')
        if v == 'nan': return float('nan')
        if '/' in v: return Fraction(v)
    return v


# ====================================================================== modes
class ModeBase:
    symbolic = False
    def __init__(self, case):
        self.case = case; self.results = {}; self.inputs = {}; self.notes = {}
    def result(self, name, value): self.results[name] = value
    def result_sorted(self, name, values):
        """order-insensitive witness (multiset of values): compared after sorting in both modes"""
        self.results[name] = {'__sorted__': list(values)}
    def note(self, k, v=True): self.notes[k] = v
    def mod(self, name):
        full = {'reference': 'bct.algorithms.reference', 'modularity': 'bct.algorithms.modularity', 'distance': 'bct.algorithms.distance',
                'clustering': 'bct.algorithms.clustering', 'centrality': 'bct.algorithms.centrality', 'core': 'bct.algorithms.core',
                'degree': 'bct.algorithms.degree', 'efficiency': 'bct.algorithms.efficiency', 'similarity': 'bct.algorithms.similarity',
                'other': 'bct.utils.other', 'misc': 'bct.utils.miscellaneous_utilities', 'nbs': 'bct.nbs',
                'physical_connectivity': 'bct.algorithms.physical_connectivity', 'motifs': 'bct.algorithms.motifs',
                'generative': 'bct.algorithms.generative'}.get(name, name)
        return importlib.import_module(full)
    def set_hook(self, fn):
        mu = importlib.import_module('bct.utils.miscellaneous_utilities')
        if hasattr(mu, '_verif_hook'): mu._verif_hook = fn
        else: raise RuntimeError('hook point _verif_hook missing in bct.utils.miscellaneous_utilities')


class SymMode(ModeBase):
    symbolic = True
    def __init__(self, case, eng):
        super().__init__(case); self.eng = eng; self.rngs = []
    def _reg(self, name, v):
        if name in self.inputs: raise RuntimeError('duplicate input name ' + name)
        self.inputs[name] = v; return v
    def real(self, name, lo=None, hi=None, lo_open=False, hi_open=False, nonzero=False):
        return self._reg(name, self.eng.fresh(name, 'R', lo=lo, hi=hi, lo_open=lo_open, hi_open=hi_open, nonzero=nonzero))
    def integer(self, name, lo=None, hi=None):
        return self._reg(name, self.eng.fresh(name, 'I', lo=lo, hi=hi))
    def boolean(self, name):
        return self._reg(name, self.eng.fresh(name, 'B'))
    def array(self, values, dk='f'):
        from .arr import S
        return S(np.array(values, dtype=object) if not isinstance(values, np.ndarray) else values, dk).copy()
    def rng(self, budget=40, stream='local', **kw):
        from .rng import SymRNG
        r = SymRNG(budget=budget, stream=stream, **kw); self.rngs.append(r); return r
    def oblige(self, label, cond, info=None): self.eng.oblige(label, cond, info)
    def assume(self, cond): self.eng.assume(cond)
    def int_value(self, x):
        from .ir import T
        return self.eng.concretize(x) if isinstance(x, T) else int(x)
    def truth_value(self, c):
        """fork on a condition (harness-level case split)"""
        return self.eng.branch(c)
    def pick_min(self, cands):
        """the candidate that the path condition forces to be the minimum (model-guided guess, then one solver proof); None if undecided"""
        from . import sc, ir
        import z3
        eng = self.eng
        if len(cands) == 1: return cands[0]
        if eng.model_env is None:
            if eng.check() != z3.sat: return None
            eng._refresh_model()
        try: vals = [float(sc.evaluate(c, eng.model_env)) for c in cands]
        except Exception: return None
        k = min(range(len(cands)), key=lambda t: vals[t])
        cond = sc.land(*[sc.le(cands[k], c) for t, c in enumerate(cands) if t != k])
        if cond is True or (cond is not False and eng.check(ir.lnot(cond)) == z3.unsat): return cands[k]
        return None
    def simplify(self, x):
        from .ir import T
        return self.eng.simplify(x) if isinstance(x, T) else x
    def close(self, a, b, tol=Fraction(1, 10**9)):
        from . import sc
        if tol == 0: return sc.eq(a, b)
        return sc.land(sc.le(sc.sub(a, b), tol), sc.le(sc.sub(b, a), tol))


class ConcMode(ModeBase):
    symbolic = False
    def __init__(self, case, inputs, script):
        super().__init__(case); self.given = inputs; self.script = script; self.violations = []; self.checked = 0
        self.rngs = []
    def _get(self, name):
        if name not in self.given: raise AssumptionFailed('replay record has no input ' + name)
        v = unjson_num(self.given[name]); self.inputs[name] = v; return v
    def real(self, name, **k):
        v = self._get(name)
        return float(v)
    def integer(self, name, lo=None, hi=None): return int(self._get(name))
    def boolean(self, name): return bool(self._get(name))
    def array(self, values, dk='f'):
        dt = {'f': float, 'i': int, 'b': bool}[dk]
        return np.array(values, dtype=dt)
    def rng(self, budget=40, stream='local', **kw):
        from .rng import ScriptedRandomState
        scr = self.script if isinstance(self.script, list) else self.script.get(stream, [])
        if self.script and isinstance(self.script, dict): scr = self.script.get(stream, [])
        r = ScriptedRandomState(scr); self.rngs.append(r); return r
    def oblige(self, label, cond, info=None):
        self.checked += 1
        if isinstance(cond, np.ndarray): cond = bool(cond.all())
        if not bool(cond): self.violations.append(label)
    def assume(self, cond):
        if not bool(cond): raise AssumptionFailed('assumption does not hold for the replayed input')
    def int_value(self, x): return int(x)
    def pick_min(self, cands):
        vals = [float(c) for c in cands]
        return cands[min(range(len(cands)), key=lambda t: vals[t])]
    def simplify(self, x): return x
    def truth_value(self, c): return bool(c)
    def close(self, a, b, tol=Fraction(1, 10**9)):
        a, b = float(a), float(b)
        if math.isinf(a) or math.isinf(b): return a == b
        if math.isnan(a) or math.isnan(b): return False
        t = max(float(tol), 1e-9)
        return abs(a - b) <= t * max(1.0, abs(a), abs(b))


# ====================================================================== symbolic side
_INSTALLED = [None]

def _install():
    if _INSTALLED[0] is None:
        sys.path.insert(0, REPO)
        os.environ['BCTPY_VERIF'] = '1'
        from . import loader
        from .rng import SymRNG
        import warnings; warnings.filterwarnings('ignore')
        g = _GlobalStream()
        mods, proxy = loader.install(global_rng=g)
        import builtins
        _INSTALLED[0] = (mods, proxy, g)
        for m in mods.values(): m.__dict__['print'] = lambda *a, **k: None
    return _INSTALLED[0]


class _RSMeta(type):
    def __instancecheck__(cls, x): return isinstance(x, np.random.RandomState)


class _RSFactory(metaclass=_RSMeta):
    """what bct sees as np.random.RandomState: isinstance works as usual; construction is reported to the harness
    (which may hand back a labelled symbolic stream) and otherwise builds the real thing"""
    owner = None
    def __new__(cls, seed=None):
        g = cls.owner
        if g is not None and g.ctor_hook is not None: return g.ctor_hook(seed)
        return np.random.RandomState(seed)


class _GlobalStream:
    """stand-in for the module `np.random` inside bct modules: draws come from a separately labelled SymRNG"""
    def __init__(self):
        self.rng = None; self.mtrand = self; self.ctor_hook = None
        _RSFactory.owner = self; self.RandomState = _RSFactory
    @property
    def _rand(self):
        if self.rng is None: raise RuntimeError('global random stream touched but harness installed none')
        return self.rng
    def __getattr__(self, name):
        return getattr(self._rand, name)
    def __eq__(self, o): return o is self or o is np.random
    def __hash__(self): return id(self)


def eval_value(v, env):
    from . import sc
    from .ir import T
    from .arr import MaskedVec, LazyIdx, LazyRows
    if isinstance(v, (MaskedVec, LazyIdx, LazyRows)): return '<lazy>'
    if isinstance(v, np.ndarray):
        return [eval_value(x, env) for x in (v.view(np.ndarray) if v.ndim else [v[()]])]
    if isinstance(v, (list, tuple)): return [eval_value(x, env) for x in v]
    if isinstance(v, dict):
        if '__sorted__' in v: return sorted(float(eval_value(x, env)) for x in v['__sorted__'])
        return {k: eval_value(x, env) for k, x in v.items()}
    if isinstance(v, (T, sc.Ext)): return sc.evaluate(v, env)
    return v


def run_case_symbolic(hname, case, opts):
    """explore one case; returns a JSON-able result dict"""
    t0 = time.time()
    from .engine import Engine, Prune, Inconclusive
    from .ir import Unsupported
    from . import rng as rngmod, arr
    _install()
    H = importlib.import_module('harness.' + hname)
    budget = case.get('budget_s', opts.get('budget_s', 120))
    eng = Engine(timeout_ms=opts.get('query_timeout_ms', 20000), max_paths=case.get('max_paths', 200000))
    eng.deadline = t0 + budget
    eng.path_cap = case.get('path_cap')
    Engine.cur = eng
    if opts.get('prefix') is not None:
        eng.decisions = [[bool(d[0]), False, d[2]] for d in opts['prefix']]
    res = dict(case=case, status='ok', cex=[], witnesses=[], samples=[], notes={}, error=None, exceptions={})
    seen_labels = {}
    max_wit = opts.get('witnesses_per_case', 3)
    wit_every = max(1, case.get('witness_every', 1))
    state = {'mode': None}
    rnd = random.Random(opts.get('seed', 0) * 7919 + int(hashlib.md5(json.dumps(case, sort_keys=True, default=str).encode()).hexdigest()[:8], 16))

    def record(label, info, env, nice, mode):
        key = label.split('#')[0]
        seen_labels[key] = seen_labels.get(key, 0) + 1
        if env is None:
            res['status'] = 'inconclusive'; res['error'] = 'solver unknown on obligation ' + label; return
        if seen_labels[key] > opts.get('cex_per_label', 2): return
        inputs = {k: jsonable(eval_value(v, env)) for k, v in mode.inputs.items()}
        script = {r.stream: jsonable(rngmod.eval_draws(r.draws, env)) for r in mode.rngs}
        res['cex'].append(dict(label=label, info=jsonable(info), inputs=inputs, script=script, nice=nice, case=case))

    def body():
        arr.CFG.update(lazy_where=False, concretize_index=False, argsort_declarative=True, linalg_solve_stub=False)
        arr.CFG.update(case.get('cfg', {}))
        g = _INSTALLED[0][2]; g.rng = None; g.ctor_hook = None
        mode = SymMode(case, eng); state['mode'] = mode
        mode.global_stream = g
        try:
            H.body(case, mode)
        except (Prune, Inconclusive, Unsupported, CaseTimeout, KeyboardInterrupt):
            raise
        except AssumptionFailed:
            raise Prune('infeasible: harness assumption')
        except Exception as e:
            ok = getattr(H, 'ALLOWED_EXCEPTIONS', {}).get(case.get('fn'), ())
            name = type(e).__name__
            res['exceptions'][name] = res['exceptions'].get(name, 0) + 1
            if name in ok or name in case.get('allowed_exceptions', ()):
                pass
            else:
                tb = traceback.extract_tb(e.__traceback__)
                where = [f for f in tb if '/bct/' in f.filename]
                loc = ('%s:%d' % (os.path.basename(where[-1].filename), where[-1].lineno)) if where else 'harness'
                eng.oblige('no_exception#%s@%s' % (name, loc), False, {'exception': name, 'message': str(e)[:200], 'where': loc})
        return mode

    def on_path(mode):
        npath = eng.stats['paths']
        eng.discharge(lambda label, info, env, nice: record(label, info, env, nice, mode))
        # witness for translation validation of the facade
        if len(res['witnesses']) < max_wit and (npath % wit_every == 0) and mode.results and not mode.notes.get('no_witness'):
            env, nice = eng.nice_model()
            if env is not None:
                try:
                    w = dict(inputs={k: jsonable(eval_value(v, env)) for k, v in mode.inputs.items()},
                             script={r.stream: jsonable(rngmod.eval_draws(r.draws, env)) for r in mode.rngs},
                             expected=jsonable({k: eval_value(v, env) for k, v in mode.results.items()}), nice=nice, case=case)
                    res['witnesses'].append(w)
                except Unsupported:
                    pass
        if len(res['samples']) < 2:
            res['samples'].append(dict(case=case.get('name'), decisions=[bool(d[0]) if d[2] is None or isinstance(d[2], str) else int(d[2]) for d in eng.decisions[:eng.pos]][:60],
                                       notes=jsonable(mode.notes)))
        for k, v in mode.notes.items():
            if v: res['notes'][k] = res['notes'].get(k, 0) + 1

    old = signal.signal(signal.SIGALRM, _alarm)
    signal.alarm(int(budget) + 30)
    try:
        if opts.get('split_depth') is not None:
            # splitting phase: deepen the cut until the frontier is wide enough to feed all cores; paths that finish
            # above the cut are complete paths of this run
            depth = opts['split_depth']; target = opts.get('split_target', 48)
            while True:
                eng.cut_depth = depth; eng.frontier = []; eng.decisions = []
                for k in ('cex', 'witnesses', 'samples'): res[k] = []
                res['notes'] = {}; res['exceptions'] = {}; seen_labels.clear()
                st0 = dict(eng.stats); st0['prune_reasons'] = dict(eng.stats['prune_reasons'])
                eng.explore(body, on_path)
                if len(eng.frontier) >= target or len(eng.frontier) == 0 or depth >= 200: break
                eng.stats = st0; depth += 6
        else:
            eng.explore(body, on_path)
    except Inconclusive as e:
        res['status'] = 'inconclusive'; res['error'] = 'inconclusive: ' + str(e)
    except Unsupported as e:
        res['status'] = 'unsupported'; res['error'] = 'unsupported: ' + str(e)
        tb = traceback.extract_tb(e.__traceback__)
        res['error'] += ' @ ' + ' <- '.join('%s:%d' % (os.path.basename(f.filename), f.lineno) for f in tb[-4:])
    except CaseTimeout as e:
        res['status'] = 'inconclusive'; res['error'] = 'case timeout'
    except Exception as e:
        res['status'] = 'error'; res['error'] = 'harness error: ' + ''.join(traceback.format_exception(type(e), e, e.__traceback__))[-1500:]
    finally:
        signal.alarm(0); signal.signal(signal.SIGALRM, old)
    res['stats'] = jsonable(eng.stats)
    res['wall_s'] = time.time() - t0
    res['label_counts'] = seen_labels
    res['frontier'] = jsonable(eng.frontier)
    Engine.cur = None
    return res


# ====================================================================== concrete side (pristine bct, real numpy)
def run_concrete(hname, case, inputs, script, timeout=20):
    sys.path.insert(0, REPO) if REPO not in sys.path else None
    os.environ['BCTPY_VERIF'] = '1'
    import warnings; warnings.filterwarnings('ignore')
    H = importlib.import_module('harness.' + hname)
    mode = ConcMode(case, inputs, script)
    out = dict(violations=[], exception=None, results=None, status='ok', checked=0)
    old = signal.signal(signal.SIGALRM, _alarm)
    signal.alarm(timeout)
    try:
        import io, contextlib
        with contextlib.redirect_stdout(io.StringIO()):
            H.body(case, mode)
    except CaseTimeout:
        out['status'] = 'timeout'
    except AssumptionFailed as e:
        out['status'] = 'assumption_failed'; out['exception'] = str(e)
    except Exception as e:
        name = type(e).__name__
        from .rng import ScriptExhausted, ScriptMismatch
        if isinstance(e, (ScriptExhausted, ScriptMismatch)):
            out['status'] = 'script_diverged'; out['exception'] = str(e)
        else:
            ok = getattr(H, 'ALLOWED_EXCEPTIONS', {}).get(case.get('fn'), ())
            tb = traceback.extract_tb(e.__traceback__)
            where = [f for f in tb if '/bct/' in f.filename]
            loc = ('%s:%d' % (os.path.basename(where[-1].filename), where[-1].lineno)) if where else 'harness'
            out['exception'] = '%s: %s @%s' % (name, str(e)[:200], loc)
            if name not in ok and name not in case.get('allowed_exceptions', ()):
                mode.violations.append('no_exception#%s@%s' % (name, loc))
                if not where: out['status'] = 'harness_exception'; out['trace'] = ''.join(traceback.format_exception(type(e), e, e.__traceback__))[-1200:]
    finally:
        signal.alarm(0); signal.signal(signal.SIGALRM, old)
        try: mode.set_hook(None)
        except Exception: pass
    out['violations'] = mode.violations; out['checked'] = mode.checked
    out['results'] = jsonable({k: (sorted(float(x) for x in v['__sorted__']) if isinstance(v, dict) and '__sorted__' in v else v) for k, v in mode.results.items()})
    return out


def compare_results(expected, got, tol=1e-7, path=''):
    """None if equal (within tol), else a description of the first difference"""
    e, g = expected, got
    if isinstance(e, str) and e == '<lazy>': return None
    e, g = unjson_num(e), unjson_num(g)
    if isinstance(e, dict):
        if not isinstance(g, dict): return '%s: type' % path
        for k in e:
            if k not in g: return '%s: missing %s' % (path, k)
            d = compare_results(e[k], g[k], tol, path + '.' + k)
            if d: return d
        return None
    if isinstance(e, (list, tuple)):
        if not isinstance(g, (list, tuple)):
            if len(e) == 1: return compare_results(e[0], g, tol, path)
            return '%s: expected list got %r' % (path, g)
        if len(e) != len(g): return '%s: length %d vs %d' % (path, len(e), len(g))
        for t, (a, b) in enumerate(zip(e, g)):
            d = compare_results(a, b, tol, '%s[%d]' % (path, t))
            if d: return d
        return None
    if isinstance(g, (list, tuple)) and len(g) == 1: return compare_results(e, g[0], tol, path)
    if e is None or g is None: return None if e is g else '%s: %r vs %r' % (path, e, g)
    if isinstance(e, str) or isinstance(g, str): return None if str(e) == str(g) else '%s: %r vs %r' % (path, e, g)
    a, b = float(e), float(g)
    if math.isnan(a) and math.isnan(b): return None
    if math.isinf(a) or math.isinf(b): return None if a == b else '%s: %r vs %r' % (path, a, b)
    if abs(a - b) <= tol * max(1.0, abs(a), abs(b)): return None
    return '%s: expected %r, real code gave %r' % (path, a, b)
