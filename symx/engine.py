"""Path explorer + z3 back end for symx.

Depth-first exploration by decision replay: the body (which calls the real bctpy function on symbolic
inputs) is re-executed once per path; every symbolic truth test asks z3 which outcomes are feasible under
the path condition, records the decision, and the next run flips the last open decision.
"""
import time, math
from fractions import Fraction
import z3
from . import ir
from .ir import T, Unsupported


class Prune(BaseException):
    """path left the stated bound (budget) or is infeasible; never an error"""


class Cut(BaseException):
    """exploration frontier reached while splitting a case into shards"""


class Inconclusive(BaseException):
    """the engine cannot decide (solver unknown, time budget of the case exhausted)"""


class Engine:
    cur = None

    def __init__(self, timeout_ms=20000, max_paths=200000, max_depth=4000):
        self.s = z3.Solver()
        self.s.set('timeout', timeout_ms)
        self.timeout_ms = timeout_ms
        self.zmemo = {}
        self.decisions = []
        self.pos = 0
        self.pc = []
        self.nfresh = 0
        self.model_env = None
        self.stats = dict(paths=0, pruned=0, infeasible=0, queries=0, solver_s=0.0, branches=0, model_hits=0,
                          obligations=0, discharged=0, trivially_true=0, sat=0, unknown=0, redundant=0, prune_reasons={})
        self.max_paths = max_paths
        self.max_depth = max_depth
        self.vars = {}
        self.nonzero = set()
        self._implied = {}
        self.path_obl = []          # obligations collected on the current path: (label, cond, info)
        self.deadline = None
        self.cut_depth = None
        self.path_cap = None
        self._uf = False
        self.frontier = []
        self.funcs = {}

    # ------------------------------------------------------------ fresh symbols
    def fresh(self, name, sort, lo=None, hi=None, hi_open=False, nonzero=False, lo_open=False):
        self.nfresh += 1
        v = ir.var('%s!%d' % (name, self.nfresh), sort)
        self.vars[v.args[0]] = v
        if lo is not None: self.assume(ir.gt(v, lo) if lo_open else ir.ge(v, lo))
        if hi is not None: self.assume(ir.lt(v, hi) if hi_open else ir.le(v, hi))
        if nonzero: self.assume(ir.ne(v, 0))
        # only now (after the solver has the assumptions) may the IR fold comparisons that follow from them
        if lo is not None and sort != 'B' and (lo > 0 or (lo == 0 and (lo_open or nonzero))): ir.KNOWN_POS.add(v.id)
        return v

    # ------------------------------------------------------------ z3 translation
    def z(self, t):
        if not isinstance(t, T):
            if isinstance(t, bool): return z3.BoolVal(t)
            if isinstance(t, int): return z3.IntVal(int(t))
            if isinstance(t, Fraction): return z3.RealVal(t)
            raise Unsupported('z const %r' % (t,))
        memo = self.zmemo
        stack = [t]
        while stack:
            x = stack[-1]
            if x.id in memo: stack.pop(); continue
            todo = [a for a in x.args if isinstance(a, T) and a.id not in memo]
            if todo: stack.extend(todo); continue
            stack.pop()
            memo[x.id] = self._z1(x)
        return memo[t.id]

    def _zc(self, a, real):
        if isinstance(a, T):
            r = self.zmemo[a.id]
            if a.sort == 'B': r = z3.If(r, z3.IntVal(1), z3.IntVal(0))
            if real and a.sort != 'R': r = z3.ToReal(r)
            return r
        if isinstance(a, bool): a = int(a)
        if real: return z3.RealVal(Fraction(a))
        return z3.IntVal(int(a))

    def _z1(self, x):
        op = x.op; real = x.sort == 'R'
        if op == 'var':
            return {'B': z3.Bool, 'I': z3.Int, 'R': z3.Real}[x.sort](x.args[0])
        if op == 'add':
            parts = [self._zc(a, real) for a in x.args[1:]]
            if x.args[0] != 0: parts.append(self._zc(x.args[0], real))
            return z3.Sum(parts) if len(parts) > 1 else parts[0]
        if op == 'mul':
            return self._zc(x.args[0], real) * self._zc(x.args[1], real)
        if op == 'ite':
            return z3.If(self.zmemo[x.args[0].id], self._zc(x.args[1], real), self._zc(x.args[2], real))
        if op in ('lt0', 'le0', 'eq0'):
            a = x.args[0]; za = self._zc(a, a.sort == 'R')
            zero = z3.RealVal(0) if a.sort == 'R' else z3.IntVal(0)
            return za < zero if op == 'lt0' else (za <= zero if op == 'le0' else za == zero)
        if op == 'iff': return self.zmemo[x.args[0].id] == self.zmemo[x.args[1].id]
        if op == 'not': return z3.Not(self.zmemo[x.args[0].id])
        if op == 'and': return z3.And([self.zmemo[a.id] for a in x.args])
        if op == 'or': return z3.Or([self.zmemo[a.id] for a in x.args])
        if op == 'rdiv':
            if self._uf:
                f = self.funcs.get('recip!uf')
                if f is None: f = self.funcs['recip!uf'] = z3.Function('recip_uf', z3.RealSort(), z3.RealSort())
                return self._zc(x.args[0], True) * f(self._zc(x.args[1], True))
            return self._zc(x.args[0], True) / self._zc(x.args[1], True)
        if op == 'mod': return self._zc(x.args[0], False) % z3.IntVal(int(x.args[1]))
        if op == 'idiv': return self._zc(x.args[0], False) / z3.IntVal(int(x.args[1]))
        if op == 'floor': return z3.ToInt(self._zc(x.args[0], True))
        if op == 'cube':
            a = self._zc(x.args[0], real); return a * a * a
        if op in ('recip', 'cbrt', 'sqrt', 'log', 'exp'):
            f = self.funcs.get(op)
            if f is None: f = self.funcs[op] = z3.Function(op, z3.RealSort(), z3.RealSort())
            return f(self._zc(x.args[0], True))
        raise Unsupported('z ' + op)

    # ------------------------------------------------------------ solving
    def _tick(self):
        if self.deadline is not None and time.time() > self.deadline:
            raise Inconclusive('case time budget exhausted')

    def check(self, *conds):
        self._tick()
        t = time.time(); self.stats['queries'] += 1
        r = self.s.check(*[self.z(c) for c in conds])
        self.stats['solver_s'] += time.time() - t
        return r

    def check_uf_division(self, conds):
        """over-approximation: x / y read as x * recip(y) with recip uninterpreted.  An `unsat` answer is valid for real
        division too (every real model is a model of the relaxed query); anything else is ignored."""
        self._tick()
        t = time.time(); self.stats['queries'] += 1
        saved = self.zmemo, self._uf
        self.zmemo = {}; self._uf = True
        try:
            s2 = z3.Solver(); s2.set('timeout', min(self.timeout_ms, 10000))
            for c in self.pc: s2.add(self.z(c))
            for c in conds: s2.add(self.z(c))
            r = s2.check()
        finally:
            self.zmemo, self._uf = saved
        self.stats['solver_s'] += time.time() - t
        if r == z3.unsat: self.stats['uf_division_proofs'] = self.stats.get('uf_division_proofs', 0) + 1
        return r

    def check_fresh(self, conds):
        """second opinion from a non-incremental solver (full preprocessing + nlsat) on path condition + conds;
        only an `unsat` answer is used"""
        self._tick()
        t = time.time(); self.stats['queries'] += 1
        s2 = z3.Solver(); s2.set('timeout', self.timeout_ms)
        for c in self.pc: s2.add(self.z(c))
        for c in conds: s2.add(self.z(c))
        r = s2.check()
        self.stats['solver_s'] += time.time() - t
        self.stats['fresh_solver_rescues'] = self.stats.get('fresh_solver_rescues', 0) + (1 if r == z3.unsat else 0)
        return r if r == z3.unsat else z3.unknown

    def model(self, extra_vars=()):
        m = self.s.model(); env = {}
        for name, v in self.vars.items():
            zv = m.eval(self.z(v), model_completion=True)
            if v.sort == 'B': env[name] = z3.is_true(zv)
            elif v.sort == 'I': env[name] = ir.Z(zv.as_long())
            else:
                try: env[name] = ir.norm_num(Fraction(zv.numerator_as_long(), zv.denominator_as_long()))
                except Exception: env[name] = ir.norm_num(Fraction(str(zv.approx(20)).rstrip('?')))
        atoms = {}
        for op, f in self.funcs.items():
            fi = m[f]
            if fi is None: continue
            try:
                for k in range(fi.num_entries()):
                    en = fi.entry(k)
                    a = en.arg_value(0); v = en.value()
                    atoms[(op, _zfrac(a))] = _zfrac(v)
                atoms[(op, 'else')] = _zfrac(fi.else_value())
            except Exception:
                pass
        if atoms: env['__atoms__'] = atoms
        return env

    def nice_model(self, conds=(), denom=8, bound=64):
        """try to get a model whose Real variables are multiples of 1/denom (exactly representable doubles)"""
        self.s.push()
        try:
            for c in conds: self.s.add(self.z(c))
            self.s.push()
            try:
                for name, v in self.vars.items():
                    if v.sort == 'R':
                        k = z3.Int('nice?' + name)
                        self.s.add(self.z(v) * denom == z3.ToReal(k), k <= bound * denom, k >= -bound * denom)
                t = time.time(); r = self.s.check(); self.stats['solver_s'] += time.time() - t; self.stats['queries'] += 1
                if r == z3.sat: return self.model(), True
            finally:
                self.s.pop()
            t = time.time(); r = self.s.check(); self.stats['solver_s'] += time.time() - t; self.stats['queries'] += 1
            if r == z3.sat: return self.model(), False
            return None, False
        finally:
            self.s.pop()

    def assume(self, c):
        c = ir.truth(c)
        if c is True: return
        if c is False: raise Prune('infeasible: assumed false')
        self.s.add(self.z(c)); self.pc.append(c)
        if self.model_env is not None:
            try:
                if not ir.evaluate(c, self.model_env): self.model_env = None
            except (KeyError, Unsupported): self.model_env = None

    def _holds_in_model(self, c):
        if self.model_env is None: return None
        try: return bool(ir.evaluate(c, self.model_env))
        except (KeyError, Unsupported): return None

    def _refresh_model(self):
        try: self.model_env = self.model()
        except Exception: self.model_env = None

    def branch(self, c, tag=None):
        c = ir.truth(c)
        if not isinstance(c, T): return bool(c)
        self.stats['branches'] += 1
        if self.pos >= self.max_depth: raise Prune('depth budget')
        if self.pos < len(self.decisions):
            d = self.decisions[self.pos][0]
        else:
            if self.cut_depth is not None and self.pos >= self.cut_depth: raise Cut()
            nc = ir.lnot(c)
            hm = self._holds_in_model(c)
            if hm is True:
                self.stats['model_hits'] += 1
                rt = z3.sat; rf = self.check(nc)
            elif hm is False:
                self.stats['model_hits'] += 1
                rf = z3.sat; rt = self.check(c)
            else:
                rt = self.check(c)
                if rt == z3.sat: self._refresh_model()
                rf = self.check(nc) if rt != z3.unknown else rt
            if rt == z3.unknown or rf == z3.unknown:
                self.stats['unknown'] += 1
                raise Inconclusive('solver unknown at branch')
            if rt == z3.sat and rf == z3.sat: self.decisions.append([True, True, tag]); d = True
            elif rt == z3.sat: self.decisions.append([True, False, tag]); d = True
            elif rf == z3.sat: self.decisions.append([False, False, tag]); d = False
            else: raise Prune('infeasible')
        self.pos += 1
        cc = c if d else ir.lnot(c)
        self.s.add(self.z(cc)); self.pc.append(cc)
        if self.model_env is not None and self._holds_in_model(cc) is not True: self.model_env = None
        return d

    def concretize(self, t):
        """fork over the feasible values of an Int term"""
        if not isinstance(t, T): return t
        if t.sort == 'B': return int(self.branch(t))
        if t.sort != 'I': raise Unsupported('concretize non-int')
        while True:
            if self.pos < len(self.decisions):
                v = self.decisions[self.pos][2]
            else:
                v = None
                if self.model_env is not None:
                    try: v = ir.evaluate(t, self.model_env)
                    except (KeyError, Unsupported): v = None
                if v is None:
                    r = self.check()
                    if r == z3.unknown:
                        self.stats['unknown'] += 1; raise Inconclusive('solver unknown at concretize')
                    if r != z3.sat: raise Prune('infeasible at concretize')
                    self._refresh_model()
                    v = ir.evaluate(t, self.model_env)
            c = ir.eq(t, v)
            if not isinstance(c, T):
                if c: return v
                raise Prune('infeasible concretize')
            if self.branch(c, tag=v): return ir.Z(int(v))

    # ------------------------------------------------------------ simplification under the path condition
    def implied(self, c):
        """True / False if the path condition decides c, else None"""
        c = ir.truth(c)
        if not isinstance(c, T): return bool(c)
        k = c.id
        if k in self._implied: return self._implied[k]
        r = None
        if self.check(ir.lnot(c)) == z3.unsat: r = True
        elif self.check(c) == z3.unsat: r = False
        self._implied[k] = r
        return r

    def simplify(self, t, budget=400):
        """resolve every ite whose condition the path condition decides (case splits already taken by the code)"""
        memo = {}
        left = [budget]
        def go(x):
            if not isinstance(x, T): return x
            if x.id in memo: return memo[x.id]
            if x.op == 'ite' and left[0] > 0:
                left[0] -= 1
                d = self.implied(x.args[0])
                if d is True: r = go(x.args[1])
                elif d is False: r = go(x.args[2])
                else: r = ir.ite(x.args[0], go(x.args[1]), go(x.args[2]))
            elif x.op in ('add',):
                r = x.args[0]
                for a in x.args[1:]: r = ir.add(r, go(a))
            elif x.op == 'mul': r = ir.mul(go(x.args[0]), go(x.args[1]))
            elif x.op == 'rdiv': r = ir.div(go(x.args[0]), go(x.args[1]))
            else: r = x
            memo[x.id] = r
            return r
        return go(t)

    # ------------------------------------------------------------ obligations
    def oblige(self, label, cond, info=None):
        """register an assertion for the current path (decided by `discharge` at the end of the path)"""
        self.path_obl.append((label, cond, info))

    def discharge(self, on_sat, batch=True):
        """decide all obligations of the path: PC and not(cond) must be unsat.  on_sat(label, info, env, nice)"""
        obl = self.path_obl; self.path_obl = []
        todo = []
        for label, cond, info in obl:
            self.stats['obligations'] += 1
            c = ir.truth(cond) if not isinstance(cond, bool) else cond
            if c is True:
                self.stats['discharged'] += 1; self.stats['trivially_true'] += 1
            else:
                todo.append((label, c, info))
        if not todo: return
        if batch and len(todo) > 1 and all(isinstance(c, T) for _, c, _ in todo):
            allc = ir.land(*[c for _, c, _ in todo])
            if allc is not False:
                r = z3.unsat if (_has_div(allc) and self.check_uf_division([ir.lnot(allc)]) == z3.unsat) else self.check(ir.lnot(allc))
                if r == z3.unsat:
                    self.stats['discharged'] += len(todo); return
        for label, c, info in todo:
            if c is False:
                r = z3.sat; neg = []
            else:
                neg = [ir.lnot(c)]
                r = None
                if _has_div(c) and self.check_uf_division(neg) == z3.unsat: r = z3.unsat
                if r is None: r = self.check(*neg)
                if r == z3.unknown: r = self.check_fresh(neg)
            if r == z3.unsat: self.stats['discharged'] += 1
            elif r == z3.sat:
                self.stats['sat'] += 1
                env, nice = self.nice_model(neg)
                on_sat(label, info, env, nice)
            else:
                self.stats['unknown'] += 1
                on_sat(label, info, None, False)

    # ------------------------------------------------------------ exploration
    def explore(self, body, on_path=None):
        while True:
            self._tick()
            self.s.push(); self.pos = 0; self.pc = []; self.nfresh = 0; self.model_env = None
            self.nonzero = set(); self.path_obl = []; self._implied = {}; ir.KNOWN_POS.clear()
            try:
                r = body()
                self.stats['paths'] += 1
                if on_path: on_path(r)
            except Cut:
                self.frontier.append([[bool(d[0]), False, d[2]] for d in self.decisions[:self.pos]])
            except Prune as e:
                msg = str(e)
                if msg.startswith('infeasible'): self.stats['infeasible'] += 1
                elif msg.startswith('redundant'): self.stats['redundant'] = self.stats.get('redundant', 0) + 1
                else:
                    self.stats['pruned'] += 1
                    self.stats['prune_reasons'][msg] = self.stats['prune_reasons'].get(msg, 0) + 1
            finally:
                self.s.pop()
            del self.decisions[self.pos:]
            while self.decisions and not self.decisions[-1][1]: self.decisions.pop()
            if not self.decisions: break
            last = self.decisions[-1]
            self.decisions[-1] = [not last[0], False] + last[2:]
            if self.stats['paths'] + self.stats['pruned'] >= self.max_paths: raise Inconclusive('max paths')
            if self.path_cap is not None and self.stats['paths'] >= self.path_cap:
                self.stats['path_cap_reached'] = 1; break


_DIVMEMO = {}
def _has_div(t):
    if not isinstance(t, T): return False
    r = _DIVMEMO.get(t.id)
    if r is None:
        r = t.op == 'rdiv' or any(_has_div(a) for a in t.args)
        _DIVMEMO[t.id] = r
    return r


def _zfrac(a):
    try: return ir.norm_num(Fraction(a.numerator_as_long(), a.denominator_as_long()))
    except Exception:
        return ir.norm_num(Fraction(str(a.approx(20)).rstrip('?')))


def E(): return Engine.cur
