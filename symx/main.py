"""./check driver: runs one property's harness (cases in parallel), replays counterexamples on the real code,
validates witnesses against the real code, applies the known-findings list, writes evidence, sets the exit code.

exit 0  every obligation discharged on every explored path (known findings listed, pruned paths reported)
exit 1  VIOLATION: a solver counterexample reproduced on the real code and is not a listed known finding
exit 2  inconclusive / harness error (solver unknown, unsupported operation, replay did not reproduce, vacuity guard)
"""
import os, sys, json, time, argparse, importlib, multiprocessing as mp, re, traceback, hashlib

VERIF = os.path.dirname(os.path.dirname(os.path.abspath(__file__)))
sys.path.insert(0, VERIF)
from symx import run as R


def _sym_worker(args):
    hname, case, opts = args
    try:
        return R.run_case_symbolic(hname, case, opts)
    except BaseException as e:
        return dict(case=case, status='error', error='worker crash: ' + ''.join(traceback.format_exception(type(e), e, e.__traceback__))[-1500:],
                    cex=[], witnesses=[], samples=[], notes={}, stats={}, wall_s=0, label_counts={}, exceptions={})


def _conc_worker(args):
    hname, case, inputs, script, timeout = args
    try:
        return R.run_concrete(hname, case, inputs, script, timeout)
    except BaseException as e:
        return dict(status='harness_exception', violations=[], exception=repr(e), results=None, checked=0,
                    trace=''.join(traceback.format_exception(type(e), e, e.__traceback__))[-1500:])


def load_known():
    p = os.path.join(VERIF, 'known_findings.json')
    if not os.path.exists(p): return []
    return json.load(open(p)).get('findings', [])


def match_known(known, prop, rec):
    """a known finding suppresses exactly: property + fn + label regex (+ optional predicate on the case/inputs)"""
    for k in known:
        if k.get('status') != 'open': continue
        if k['property'] != prop: continue
        if k.get('fn') and rec['case'].get('fn') not in k['fn'].split('|'): continue
        if not re.search(k['label_regex'], rec['label']): continue
        when = k.get('when')
        if when:
            env = dict(rec['case']); env['inputs'] = rec.get('inputs', {}); env['info'] = rec.get('info') or {}
            try:
                if not eval(when, {'__builtins__': {}}, env): continue
            except Exception:
                continue
        return k
    return None


def label_key(label): return label.split('#')[0]


def main(argv=None):
    ap = argparse.ArgumentParser()
    ap.add_argument('prop')
    ap.add_argument('--tier', default=os.environ.get('VERIF_TIER', 'quick'))
    ap.add_argument('--replay', default=None)
    ap.add_argument('--jobs', type=int, default=int(os.environ.get('VERIF_JOBS', '16')))
    ap.add_argument('--only', default=None, help='regex on case names')
    ap.add_argument('--no-evidence', action='store_true')
    ap.add_argument('-v', action='store_true')
    a = ap.parse_args(argv)
    prop = a.prop.upper(); hname = prop.lower()
    seed = int(os.environ.get('VERIF_SEED', '0'))
    H = importlib.import_module('harness.' + hname)
    if a.replay: return replay_file(H, hname, prop, a.replay)
    t0 = time.time()
    cases = H.cases(a.tier, seed)
    if a.only: cases = [c for c in cases if re.search(a.only, c['name'])]
    opts = dict(seed=seed, tier=a.tier)
    opts.update(getattr(H, 'OPTS', {}).get(a.tier, {}))
    known = load_known()
    ctx = mp.get_context('fork')
    # pristine pool first (forked before anything imports bct), then the symbolic pool
    conc_pool = ctx.Pool(min(a.jobs, 8), maxtasksperchild=50)
    sym_pool = ctx.Pool(a.jobs, maxtasksperchild=getattr(H, 'TASKS_PER_CHILD', 8))
    # wave 1: whole cases, and the splitting phase of sharded cases; wave 2: the shards
    tasks = []
    for c in cases:
        o = dict(opts)
        if c.get('shard_depth'): o['split_depth'] = c['shard_depth']
        tasks.append((hname, c, o))
    tasks.sort(key=lambda t: (t[1].get('weight', 1) if a.tier == 'thorough' else -t[1].get('weight', 1)))
    results = []
    def show(r):
        if a.v: print('[case] %-50s %-12s paths=%s pruned=%s red=%s obl=%s sat=%s %.1fs %s' % (r['case']['name'], r['status'], r['stats'].get('paths'), r['stats'].get('pruned'), r['stats'].get('redundant'),
              r['stats'].get('obligations'), r['stats'].get('sat'), r['wall_s'], (r.get('error') or '')[:300]), flush=True)
    # time cap for the whole run (thorough: 600 s; quick: 1500 s, several times its normal duration, so that a change that makes the exploration explode cannot hang the check): work not finished by then is listed as not run, never as passed
    cap = float(os.environ.get('VERIF_TIME_CAP', '600' if a.tier == 'thorough' else '1500')) or None
    skipped = []
    wave2 = []
    capped = False
    it = sym_pool.imap_unordered(_sym_worker, tasks, chunksize=1)
    ndone = 0
    while ndone < len(tasks):
        try:
            r = it.next(timeout=None if cap is None else max(1.0, cap - (time.time() - t0)))
        except mp.TimeoutError:
            capped = True; break
        ndone += 1
        results.append(r); show(r)
        for k, pre in enumerate(r.get('frontier') or []):
            o = dict(opts); o['prefix'] = pre
            wave2.append((hname, r['case'], o))
    if capped:
        donen = {r['case']['name'] for r in results}
        skipped += [t[1]['name'] for t in tasks if t[1]['name'] not in donen]
        if wave2: skipped.append('%d shards of split cases' % len(wave2))
    elif wave2:
        it = sym_pool.imap_unordered(_sym_worker, wave2, chunksize=1)
        n2 = 0
        while n2 < len(wave2):
            try:
                r = it.next(timeout=None if cap is None else max(1.0, cap - (time.time() - t0)))
            except mp.TimeoutError:
                capped = True; break
            n2 += 1
            r['shard'] = True
            results.append(r); show(r)
        if capped: skipped.append('%d of %d shards of split cases' % (len(wave2) - n2, len(wave2)))
    if capped: sym_pool.terminate()
    else: sym_pool.close()
    sym_pool.join()

    # ---------------- replay counterexamples on the real code
    cex = [c for r in results for c in r['cex']]
    rep = conc_pool.map(_conc_worker, [(hname, c['case'], c['inputs'], c['script'], 30) for c in cex], chunksize=1) if cex else []
    violations = []; known_hits = {}; problems = []; diverged = []; reproduced_keys = set()
    os.makedirs(os.path.join(VERIF, 'replays', prop), exist_ok=True)
    for c, rr in zip(cex, rep):
        key = label_key(c['label'])
        got = [label_key(v) for v in rr['violations']]
        reproduced = key in got or (key.startswith('no_exception') and any(g.startswith('no_exception') for g in got)) \
            or (rr['status'] == 'timeout' and key.startswith('terminates'))
        c['replay'] = dict(status=rr['status'], violations=rr['violations'][:12], exception=rr.get('exception'), reproduced=reproduced)
        if not reproduced:
            # any other violated obligation still counts as a reproduced violation of this property
            if rr['violations'] and rr['status'] in ('ok',):
                reproduced = True; c['replay']['reproduced'] = True; c['replay']['note'] = 'different obligation violated on replay'
                c['label'] = rr['violations'][0]
        if not reproduced:
            msg = 'counterexample for %s in case %s did not reproduce on the real code (replay status %s, exception %s)' % (c['label'], c['case']['name'], rr['status'], rr.get('exception'))
            if rr['status'] == 'script_diverged' and getattr(H, 'WITNESS_TIE_SENSITIVE', False):
                # exact-vs-double tie breaking sent the real code down another trajectory: only a problem if no other
                # counterexample for the same obligation of the same function reproduces
                diverged.append(((c['case'].get('fn'), key), msg))
            else: problems.append(msg)
            continue
        reproduced_keys.add((c['case'].get('fn'), key))
        k = match_known(known, prop, c)
        if k is not None:
            known_hits.setdefault(k['id'], dict(finding=k, n=0)); known_hits[k['id']]['n'] += 1
        else:
            violations.append(c)

    for k_, msg in diverged:
        if k_ not in reproduced_keys: problems.append(msg)
    # ---------------- listed open findings with a stored replay: confirm each still reproduces on the real code
    for k in known:
        if k.get('status') != 'open' or k['property'] != prop or not k.get('replay_file') or k['id'] in known_hits: continue
        try:
            rec = json.load(open(os.path.join(VERIF, k['replay_file'])))
            rr = conc_pool.apply(_conc_worker, ((hname, rec['case'], rec['inputs'], rec['script'], 60),))
            if any(re.search(k['label_regex'], v) for v in rr['violations']):
                known_hits[k['id']] = dict(finding=k, n=1)
            else:
                print('NOTE: listed finding %s did not reproduce from its stored replay (%s): it may have been repaired' % (k['id'], rr['status']))
        except Exception as e:
            problems.append('stored replay of known finding %s could not be run: %r' % (k['id'], e))

    # ---------------- witness validation (facade vs real numpy on explored paths)
    wits = [w for r in results for w in r['witnesses']]
    wrep = conc_pool.map(_conc_worker, [(hname, w['case'], w['inputs'], w['script'], 30) for w in wits], chunksize=1) if wits else []
    conc_pool.close(); conc_pool.join()
    validated = 0; wit_skipped = 0
    for w, rr in zip(wits, wrep):
        if rr['status'] != 'ok' or rr['results'] is None:
            if rr['status'] in ('script_diverged', 'assumption_failed') and (not w['nice'] or getattr(H, 'WITNESS_TIE_SENSITIVE', False)):
                wit_skipped += 1; continue
            if rr.get('exception') and rr['status'] == 'ok':
                pass
            else:
                problems.append('witness replay failed in case %s: %s %s inputs=%s script=%s' % (w['case']['name'], rr['status'], rr.get('exception'), json.dumps(w['inputs'])[:200], json.dumps(w['script'])[:400])); continue
        d = R.compare_results(w['expected'], rr['results'])
        if d is None: validated += 1
        elif not w['nice'] or getattr(H, 'WITNESS_TIE_SENSITIVE', False): wit_skipped += 1
        else: problems.append('facade/real-code mismatch in case %s: %s (inputs %s)' % (w['case']['name'], d, json.dumps(w['inputs'])[:300]))

    # ---------------- aggregate
    agg = dict(paths=0, pruned=0, redundant=0, infeasible=0, queries=0, solver_s=0.0, branches=0, obligations=0, discharged=0, sat=0, unknown=0, trivially_true=0)
    prune_reasons = {}; notes = {}; exceptions = {}; percase = {}; not_encoded = []
    for r in results:
        for k in agg: agg[k] += r['stats'].get(k, 0) or 0
        for k, v in (r['stats'].get('prune_reasons') or {}).items(): prune_reasons[k] = prune_reasons.get(k, 0) + v
        for k, v in r['notes'].items(): notes[k] = notes.get(k, 0) + v
        for k, v in r.get('exceptions', {}).items(): exceptions[k] = exceptions.get(k, 0) + v
        if r['status'] != 'ok':
            if r['case'].get('optional') and r['status'] in ('unsupported', 'inconclusive'):
                not_encoded.append(dict(case=r['case']['name'], reason=(r['error'] or '')[:160]))
            else: problems.append('case %s: %s' % (r['case']['name'], r['error']))
        cn = r['case']['name']
        percase.setdefault(cn, [0, 0, r['case']]); percase[cn][0] += r['stats'].get('paths', 0) or 0; percase[cn][1] += r['stats'].get('pruned', 0) or 0
    for cn, (np_, npr, cc) in percase.items():
        if np_ == 0 and not cc.get('may_be_empty') and not cc.get('optional') and not capped:
            problems.append('vacuity: case %s completed no path (pruned %s)' % (cn, npr))
    # harness-level vacuity / progress guards
    for g in getattr(H, 'GUARDS', []):
        if g.get('tier') and g['tier'] != a.tier: continue
        if notes.get(g['note'], 0) < g.get('min', 1) and not a.only:
            if capped:
                print('NOTE: progress guard "%s" not met by the cases that ran before the time cap' % g['note']); continue
            problems.append('vacuity guard: no explored path had "%s" (%s)' % (g['note'], g.get('why', '')))

    wall = time.time() - t0
    exit_code = 0
    for kid, kh in known_hits.items():
        print('KNOWN-FINDING: property=%s %s [%s; %d counterexample(s) replayed on the real code]' % (prop, kh['finding']['what'], kid, kh['n']))
    seenv = set()
    for v in violations:
        vk = (v['case'].get('fn'), label_key(v['label']))
        path = os.path.join(VERIF, 'replays', prop, '%s.json' % hashlib.md5(json.dumps([v['case'], v['label'], v['inputs'], v['script']], sort_keys=True, default=str).encode()).hexdigest()[:12])
        json.dump(dict(property=prop, label=v['label'], case=v['case'], inputs=v['inputs'], script=v['script'], info=v.get('info'), replay=v.get('replay')), open(path, 'w'), indent=1)
        if vk in seenv: continue
        seenv.add(vk)
        print('VIOLATION property=%s replay=%s   [%s: %s; case %s; real-code replay: %s]' % (prop, path, v['case'].get('fn'), v['label'], v['case']['name'], json.dumps(v['replay'])[:300]))
        exit_code = 1
    if problems and exit_code == 0: exit_code = 2
    for p in problems[:40]: print('INCONCLUSIVE: ' + p[:1200])

    if not a.no_evidence:
        samples = []
        for r in results:
            for s in r['samples'][:1]:
                samples.append(s)
        samples = samples[:6] + [dict(counterexample=c['label'], case=c['case']['name'], inputs=c['inputs'], script=c['script'], replay=c.get('replay')) for c in cex[:4]]
        ev = dict(property_id=prop, tier=a.tier if a.tier in ('quick', 'thorough') else 'quick', seed=seed, level='model_checking',
                  coverage=dict(states=agg['paths'], transitions=agg['branches'], traces_validated_against_impl=validated, samples=samples or [dict(note='no path completed')],
                                obligations=agg['obligations'], discharged=agg['discharged'], obligations_trivially_true=agg['trivially_true'],
                                counterexamples_from_solver=agg['sat'], solver_unknown=agg['unknown'],
                                cases=len(cases), case_names=[c['name'] for c in cases][:400],
                                pruned_paths=agg['pruned'], prune_reasons=prune_reasons, redundant_revisits_cut=agg['redundant'], infeasible_prefixes=agg['infeasible'],
                                solver_queries=agg['queries'], solver_s=round(agg['solver_s'], 2),
                                witnesses_generated=len(wits), witnesses_skipped_non_dyadic=wit_skipped,
                                functions_encoded=getattr(H, 'FUNCTIONS', []), source_sha256=source_hashes(getattr(H, 'FUNCTIONS', [])),
                                bounds=getattr(H, 'BOUNDS', {}).get(a.tier, getattr(H, 'BOUNDS', {})), path_notes=notes, exceptions_seen=exceptions,
                                known_findings_hit=[dict(id=k, n=v['n'], what=v['finding']['what']) for k, v in known_hits.items()],
                                solver='z3 %s (python API, incremental)' % z3ver(), exhaustive=False,
                                inconclusive=problems[:20], cases_not_encoded=not_encoded[:200], n_cases_not_encoded=len(not_encoded),
                                time_cap_s=cap, not_run_because_of_time_cap=skipped[:300]),
                  assumptions=getattr(H, 'ASSUMPTIONS', []) + COMMON_ASSUMPTIONS,
                  wall_s=round(wall, 2), violations=len(seenv))
        os.makedirs(os.path.join(VERIF, 'evidence'), exist_ok=True)
        json.dump(ev, open(os.path.join(VERIF, 'evidence', prop + '.json'), 'w'), indent=1)
    if skipped: print('NOTE: time cap of %ss reached; not run (outside the claim of this run): %s' % (cap, '; '.join(skipped)[:600]))
    print('%s tier=%s cases=%d paths=%d pruned=%d obligations=%d discharged=%d sat=%d validated_witnesses=%d/%d solver_s=%.1f wall=%.1fs exit=%d' % (
        prop, a.tier, len(cases), agg['paths'], agg['pruned'], agg['obligations'], agg['discharged'], agg['sat'], validated, len(wits), agg['solver_s'], wall, exit_code))
    return exit_code


COMMON_ASSUMPTIONS = [
    'floats are modelled as exact reals (IEEE rounding out of scope); counterexamples are re-run in real doubles before being reported',
    'the symx facade model of NumPy (validated on explored paths by witness replay against real numpy, not proved)',
    'z3 verdicts; "every seed" over-approximated by every sequence of in-range draws from the RandomState methods the code calls',
    'boolean-operator merging of if/while tests (mechanical source rewrite, regenerated each run; replays use the untransformed module)',
    'nothing is claimed outside the stated bounds (node count, iterations, draw budget, enumerated case families); pruned paths are outside the claim',
]


def z3ver():
    try:
        import z3; return z3.get_version_string()
    except Exception: return '?'


def source_hashes(fns):
    out = {}
    try:
        sys.path.insert(0, R.REPO)
        import inspect, bct
        for f in fns:
            o = getattr(bct, f, None)
            if o is None:
                import bct.utils.miscellaneous_utilities as mu
                o = getattr(mu, f, None)
            if o is not None:
                out[f] = hashlib.sha256(inspect.getsource(o).encode()).hexdigest()[:16]
    except Exception as e:
        out['error'] = repr(e)
    return out


def replay_file(H, hname, prop, path):
    rec = json.load(open(path))
    rr = R.run_concrete(hname, rec['case'], rec['inputs'], rec['script'], 60)
    print(json.dumps(dict(status=rr['status'], violations=rr['violations'], exception=rr.get('exception'), results=rr['results']), indent=1)[:4000])
    key = label_key(rec['label'])
    if any(label_key(v) == key for v in rr['violations']) or (rr['violations'] and rr['status'] == 'ok'):
        print('VIOLATION property=%s replay=%s' % (prop, path)); return 1
    return 0 if rr['status'] == 'ok' else 2


if __name__ == '__main__':
    sys.exit(main())
