"""NumPy façade: SymArray (object-dtype ndarray subclass carrying symbolic scalars) and the np proxy.

bctpy's own source calls the *real* numpy; NumPy's dispatch protocols (__array_ufunc__ / __array_function__)
route those calls here whenever a SymArray is involved.  Array creators cannot dispatch on an argument, so each
bct module's global `np` is rebound to NpProxy (see loader.py).
"""
import functools, math, operator
from fractions import Fraction
import numpy as np
from . import ir, sc
from .ir import T, Unsupported, norm_num, Z, ZF
from .sc import Ext, PYOPS, box, isinf, isnan
from .engine import Engine, Prune

def E(): return Engine.cur

SYMTYPES = (T, Ext)
KIND_RANK = {'b': 0, 'i': 1, 'f': 2}
CFG = {'lazy_where': False, 'concretize_index': False, 'argsort_declarative': True}

# ------------------------------------------------------------------ conversions
def plain(x): return x.view(np.ndarray) if isinstance(x, SymArray) else x

def kind_of(x):
    if isinstance(x, SymArray): return x.dk
    if isinstance(x, np.ndarray):
        k = x.dtype.kind
        if k == 'b': return 'b'
        if k in 'iu': return 'i'
        if k == 'f': return 'f'
        if k == 'O':
            ks = [kind_of(v) for v in x.flat]
            return max(ks, key=KIND_RANK.get) if ks else 'f'
        raise Unsupported('array dtype ' + str(x.dtype))
    if isinstance(x, (bool, np.bool_)): return 'b'
    if isinstance(x, (int, np.integer)): return 'i'
    if isinstance(x, T): return {'B': 'b', 'I': 'i', 'R': 'f'}[x.sort]
    if isinstance(x, (list, tuple, range)):
        ks = [kind_of(v) for v in x]
        return max(ks, key=KIND_RANK.get) if ks else 'f'
    return 'f'

def to_obj(x):
    """any array-like -> plain object ndarray of normalised scalars"""
    if isinstance(x, np.ndarray) and x.dtype == object: return plain(x)
    if isinstance(x, SYMTYPES): return box(x)
    if isinstance(x, FlatView): return x._flat_plain()
    if isinstance(x, (list, tuple)) and any(isinstance(v, (np.ndarray, list, tuple) + SYMTYPES) for v in x):
        parts = [to_obj(v) for v in x]
        out = np.empty((len(parts),) + parts[0].shape, dtype=object)
        for t, p in enumerate(parts): out[t] = p[()] if p.shape == () else p
        return out
    a = np.asarray(x)
    if a.dtype == object: return a
    if a.dtype.kind not in 'biuf': raise Unsupported('to_obj dtype ' + str(a.dtype))
    out = np.empty(a.shape, dtype=object)
    if a.shape == (): out[()] = norm_num(a[()])
    else:
        flat = out.reshape(-1)
        for t, v in enumerate(a.reshape(-1)): flat[t] = norm_num(v)
    return out

def S(x, dk=None):
    if isinstance(x, SymArray) and dk is None: return x
    k = dk or kind_of(x)
    r = to_obj(x).view(SymArray); r.dk = k
    return r

def is_sym(v): return isinstance(v, SYMTYPES)
def any_sym(a): return any(isinstance(v, SYMTYPES) for v in a.flat)
def _is_bool_elem(v): return isinstance(v, (bool, np.bool_)) or (isinstance(v, T) and v.sort == 'B')
def _is_symint(v): return isinstance(v, T) and v.sort == 'I'

def coerce_store(v, dk):
    """value as stored into an array of kind dk (numpy casting on assignment)"""
    if dk == 'f':
        if isinstance(v, T) and v.sort == 'B': return ir.num(v)
        if isinstance(v, bool): return Z(int(v))
        return v
    if dk == 'b':
        return sc.truth(v)
    if dk == 'i':
        if isinstance(v, float):
            if isnan(v): raise ValueError('cannot convert float NaN to integer')
            raise OverflowError('cannot convert float infinity to integer')
        if isinstance(v, Ext):
            if bool(v.inf): raise OverflowError('cannot convert float infinity to integer')
            v = v.fin
        if isinstance(v, T):
            if v.sort == 'R': return sc.trunc(v)
            return ir.num(v)
        if isinstance(v, bool): return Z(int(v))
        if isinstance(v, Fraction): return Z(int(v))
        return v
    return v

def has_sym_index(key):
    if isinstance(key, T): return key.sort == 'I'
    if isinstance(key, tuple): return any(has_sym_index(k) for k in key)
    if isinstance(key, np.ndarray) and key.dtype == object:
        return any(_is_symint(v) for v in key.flat)
    if isinstance(key, list): return any(has_sym_index(k) for k in key)
    return False

class MaskKey:
    def __init__(s, m): s.m = m

def fix_key(key):
    """turn object-array keys with concrete content into proper numpy keys; symbolic masks -> MaskKey"""
    if isinstance(key, np.ndarray) and key.dtype == object:
        vals = list(key.flat)
        if not vals: return np.zeros(key.shape, dtype=int)
        if all(isinstance(v, (bool, np.bool_)) for v in vals): return np.array(plain(key), dtype=bool)
        if all(_is_bool_elem(v) for v in vals): return MaskKey(plain(key))
        return np.array([operator.index(v) if not isinstance(v, Fraction) else _bad_index(v) for v in vals], dtype=int).reshape(key.shape)
    if isinstance(key, tuple):
        ks = tuple(fix_key(k) for k in key)
        if any(isinstance(k, MaskKey) for k in ks): raise Unsupported('symbolic mask inside tuple index')
        return ks
    if isinstance(key, list):
        if key and all(isinstance(v, (bool, np.bool_)) for v in key): return np.array(key, dtype=bool)
        if any(isinstance(v, SYMTYPES) for v in key): return fix_key(to_obj(key))
        return key
    if isinstance(key, Fraction): _bad_index(key)
    return key

def _bad_index(v):
    raise IndexError('only integers, slices (`:`), ellipsis (`...`), numpy.newaxis (`None`) and integer or boolean arrays are valid indices')

# ------------------------------------------------------------------ lazy (masked) views
class LazyRows:
    """R[mask, :] with symbolic mask: only reductions over axis 0 are supported without forking"""
    def __init__(self, mask, rows): self.mask = mask; self.rows = rows
    def any(self, axis=None, **k):
        if axis != 0: raise Unsupported('LazyRows.any axis')
        out = np.empty(self.rows.shape[1], dtype=object)
        for c in range(self.rows.shape[1]):
            out[c] = ir.lor(*[ir.land(self.mask[r], sc.truth(self.rows[r, c])) for r in range(self.rows.shape[0])])
        return S(out, 'b')
    def _conc(self):
        m = np.array([bool(v) for v in self.mask], dtype=bool)
        return S(self.rows[m])
    def __getattr__(self, name):
        return getattr(self._conc(), name)
    def __array__(self, dtype=None, copy=None): return plain(self._conc())

class LazyIdx:
    """one component of np.where(mask) for a symbolic 2-D (or 1-D) mask"""
    def __init__(self, mask, axis): self.mask = mask; self.axis = axis; self._c = None
    def _conc(self):
        if self._c is None:
            m = np.array([bool(v) for v in self.mask.flat], dtype=bool).reshape(self.mask.shape)
            self._c = S(np.nonzero(m)[self.axis])
        return self._c
    def __len__(self): return len(self._conc())
    def __iter__(self): return iter(self._conc())
    def __getitem__(self, k): return self._conc()[k]
    def __setitem__(self, k, v): self._conc()[k] = v
    def setflags(self, **k): pass
    def __getattr__(self, name):
        if name.startswith('__'): raise AttributeError(name)
        return getattr(self._conc(), name)
    def __array__(self, dtype=None, copy=None): return plain(self._conc())
    @property
    def size(self):
        return functools.reduce(ir.add, [ir.ite(sc.truth(v), 1, 0) for v in self.mask.flat], 0)
    @property
    def shape(self): return (len(self),)

class MaskedVec:
    def __init__(self, mask, dense): self.mask = mask; self.dense = dense
    def _bin(self, o, f):
        if isinstance(o, MaskedVec):
            if o.mask is not self.mask: raise Unsupported('MaskedVec with different masks')
            return MaskedVec(self.mask, np.frompyfunc(f, 2, 1)(self.dense, o.dense))
        if isinstance(o, np.ndarray): raise Unsupported('MaskedVec with array')
        return MaskedVec(self.mask, np.frompyfunc(lambda a: f(a, norm_num(o) if not is_sym(o) else o), 1, 1)(self.dense))
    def __add__(self, o): return self._bin(o, sc.add)
    __radd__ = __add__
    def __sub__(self, o): return self._bin(o, sc.sub)
    def __mul__(self, o): return self._bin(o, sc.mul)
    __rmul__ = __mul__
    def __truediv__(self, o): return self._bin(o, sc.div)
    def __rtruediv__(self, o):
        # only the selected cells are ever used: divide by 1 where the mask is false (keeps x/0 out of the dense view)
        oo = norm_num(o) if not is_sym(o) else o
        out = np.empty(self.dense.shape, dtype=object)
        for idx in np.ndindex(out.shape):
            m = sc.truth(self.mask[idx])
            out[idx] = 0 if m is False else sc.div(oo, sc.ite(m, self.dense[idx], 1))
        return MaskedVec(self.mask, out)
    def _conc(self):
        m = np.array([bool(v) for v in self.mask.flat], dtype=bool).reshape(self.mask.shape)
        return S(self.dense[m])
    def __array__(self, dtype=None, copy=None): return plain(self._conc())
    def __len__(self): return len(self._conc())
    def __iter__(self): return iter(self._conc())
    def __getattr__(self, name): return getattr(self._conc(), name)
    __array_ufunc__ = None

def lazy_get(arr, key):
    a = plain(arr)
    lz = [k for k in key if isinstance(k, LazyIdx)]
    m = lz[0].mask
    if any(k.mask is not m for k in lz) or len(key) != a.ndim or any(isinstance(k, (slice, np.ndarray, list)) for k in key):
        # pattern without a lazy form (row/column selections, mixed masks): fall back to the concrete node list (forks)
        return arr[tuple(k._conc() if isinstance(k, LazyIdx) else k for k in key)]
    dense = np.empty(m.shape, dtype=object)
    for idx in np.ndindex(m.shape):
        kk = tuple((idx[k.axis] if isinstance(k, LazyIdx) else k) for k in key)
        if has_sym_index(kk): dense[idx] = sym_get(arr, kk)
        else: dense[idx] = a[kk]
    return MaskedVec(m, dense)

def lazy_set(arr, key, val):
    """arr[where-components (and slices / ints)] = val   as a cell-wise ite, no fork"""
    a = plain(arr); dk = getattr(arr, 'dk', 'f')
    if not isinstance(key, tuple): key = (key,)
    key = key + (slice(None),) * (a.ndim - len(key))
    if len(key) != a.ndim: raise Unsupported('lazy_set index arity')
    lz = [k for k in key if isinstance(k, LazyIdx)]
    m = lz[0].mask
    paired = m.ndim == 2
    if paired and (len(lz) != 2 or any(k.mask is not m for k in lz) or a.ndim != 2): raise Unsupported('lazy_set with a partial 2-D where')
    if not paired and any(k.mask.ndim != 1 for k in lz): raise Unsupported('lazy_set mixing where results')
    if isinstance(val, MaskedVec):
        if not paired or val.mask is not m: raise Unsupported('lazy_set value from different mask')
        getv = lambda idx: val.dense[idx]
    elif isinstance(val, np.ndarray):
        if val.size != 1: raise Unsupported('lazy_set with array value')
        v0 = val.reshape(-1)[0]; getv = lambda idx: v0
    else:
        v0 = norm_num(val) if not is_sym(val) else val; getv = lambda idx: v0
    for idx in np.ndindex(a.shape):
        conds = []; ok = True
        for p, k in enumerate(key):
            if isinstance(k, LazyIdx):
                if not paired: conds.append(sc.truth(k.mask[idx[p]]))
            elif isinstance(k, slice):
                if idx[p] not in range(*k.indices(a.shape[p])): ok = False; break
            elif isinstance(k, T): conds.append(ir.eq(k, idx[p]))
            else:
                kk = operator.index(k)
                if kk < 0: kk += a.shape[p]
                if kk != idx[p]: ok = False; break
        if not ok: continue
        if paired:
            # key = (rows, cols) of one np.where(mask2d): position idx itself is selected iff mask[idx]
            pos = tuple(idx[p] for p, k in enumerate(key) if isinstance(k, LazyIdx))
            pos = pos if key[0].axis == 0 else pos[::-1]
            conds.append(sc.truth(m[pos]))
        c = ir.land(*conds) if conds else True
        if c is False: continue
        a[idx] = sc.ite(c, coerce_store(getv(idx), dk), a[idx])

# ------------------------------------------------------------------ the array class
class SymArray(np.ndarray):
    __array_priority__ = 100
    dk = 'f'
    def __array_finalize__(self, obj):
        if obj is not None: self.dk = getattr(obj, 'dk', 'f')

    # ---- ufuncs
    def __array_ufunc__(self, ufunc, method, *inputs, **kw):
        name = ufunc.__name__
        f = PYOPS.get(name)
        if f is None:
            if '(vectorized)' in name:
                r = getattr(ufunc, method)(*[plain(x) for x in inputs], **kw)
                return r
            raise Unsupported('ufunc ' + name)
        if any(isinstance(x, (MaskedVec, LazyRows, LazyIdx)) for x in inputs):
            inputs = tuple(x._conc() if isinstance(x, (MaskedVec, LazyRows, LazyIdx)) else x for x in inputs)
        kinds = [kind_of(x) for x in inputs]
        ins = [to_obj(x) if isinstance(x, (np.ndarray, list, tuple, range, FlatView) + SYMTYPES) else norm_num(x) for x in inputs]
        rk = result_kind(name, kinds)
        if name in BOOL_REMAP and all(k == 'b' for k in kinds):
            f = BOOL_REMAP[name]
            if f is None: raise TypeError('numpy boolean %s is not supported' % name)
        if method == '__call__':
            out = kw.get('out')
            if kw.get('where', True) is not True: raise Unsupported('ufunc where=')
            r = np.frompyfunc(f, ufunc.nin, 1)(*[box(x) if not isinstance(x, np.ndarray) else x for x in ins])
            if out is not None:
                o = out[0]; odk = getattr(o, 'dk', None) or kind_of(o)
                if KIND_RANK[rk] > KIND_RANK[odk]:
                    raise TypeError("Cannot cast ufunc '%s' output from kind %s to kind %s with casting rule 'same_kind'" % (name, rk, odk))
                po = plain(o) if isinstance(o, SymArray) else o
                if not isinstance(o, SymArray): raise Unsupported('ufunc out= plain ndarray')
                po[...] = np.frompyfunc(lambda v: coerce_store(v, odk), 1, 1)(r) if po.size else r
                return o
            if isinstance(r, np.ndarray):
                res = r.view(SymArray); res.dk = rk
                if res.shape == () and not any(isinstance(x, np.ndarray) for x in inputs): return res[()]
                return res
            return r
        if method == 'reduce':
            a = ins[0]; axis = kw.get('axis', 0); keepdims = kw.get('keepdims', False)
            if name == 'add' and kinds[0] == 'b': rk = 'i'
            if axis is None or (isinstance(axis, tuple) and len(axis) == a.ndim): a = a.reshape(-1); axis = 0
            if isinstance(axis, tuple): raise Unsupported('tuple axis reduce')
            if a.ndim == 0: a = a.reshape(1)
            if a.shape[axis] == 0:
                if name not in IDENT: raise ValueError('zero-size array to reduction operation %s which has no identity' % name)
                shp = a.shape[:axis] + a.shape[axis + 1:]
                if not shp: return IDENT[name]
                r = np.empty(shp, dtype=object); r.fill(IDENT[name]); return S(r, rk)
            a = np.moveaxis(a, axis, 0)
            if name in ('logical_or', 'logical_and'):
                a = np.frompyfunc(sc.truth, 1, 1)(a)
            elif name == 'add' and kinds[0] == 'b':
                f = sc.add
                a = np.frompyfunc(lambda v: ir.num(sc.truth(v)) if not isinstance(v, bool) else int(v), 1, 1)(a)
            acc = a[0]; ff = np.frompyfunc(f, 2, 1)
            for t in range(1, a.shape[0]):
                acc = ff(acc, a[t]) if isinstance(acc, np.ndarray) else f(acc, a[t])
            if isinstance(acc, np.ndarray):
                if acc.shape == (): return acc[()]
                if keepdims: acc = np.expand_dims(acc, axis if axis >= 0 else axis + acc.ndim + 1)
                return S(acc, rk)
            if name == 'add' and isinstance(acc, bool): acc = Z(int(acc))
            return acc
        if method == 'outer':
            a, b = ins
            a = a if isinstance(a, np.ndarray) else box(a); b = b if isinstance(b, np.ndarray) else box(b)
            return S(np.frompyfunc(f, 2, 1)(a.reshape(a.shape + (1,) * b.ndim), b), rk)
        if method == 'accumulate':
            a = ins[0]
            if a.ndim != 1: raise Unsupported('accumulate nd')
            out = np.empty(a.shape, dtype=object); acc = None
            for t in range(len(a)):
                acc = a[t] if acc is None else f(acc, a[t]); out[t] = acc
            return S(out, rk)
        raise Unsupported('ufunc method ' + method)

    def __array_function__(self, func, types, args, kwargs):
        h = FUNCS.get(func.__name__)
        if h is not None: return h(*args, **kwargs)
        if func.__name__ in PASS:
            args = tuple(a._conc() if isinstance(a, (MaskedVec, LazyRows, LazyIdx)) else a for a in args)
            r = super().__array_function__(func, types, args, kwargs)
            return r
        raise Unsupported('np.' + func.__name__)

    # ---- indexing
    def __getitem__(self, key):
        if isinstance(key, SymIx):
            out = np.empty(tuple(len(c) for c in key.cols), dtype=object)
            for idx in np.ndindex(out.shape):
                kk = tuple(c[t] for c, t in zip(key.cols, idx))
                out[idx] = sym_get(self, kk) if has_sym_index(kk) else plain(self)[tuple(operator.index(x) for x in kk)]
            return S(out, self.dk)
        if isinstance(key, LazyIdx): key = (key,)
        if isinstance(key, tuple) and any(isinstance(k, LazyIdx) for k in key): return lazy_get(self, key)
        if isinstance(key, FlatView): key = key._flat_plain()
        if isinstance(key, MaskedVec): key = key._conc()
        if (isinstance(key, tuple) and len(key) == 2 and isinstance(key[0], np.ndarray) and key[0].dtype == object
                and isinstance(key[1], slice) and key[1] == slice(None) and self.ndim == 2 and key[0].ndim == 1
                and any(isinstance(v, T) and v.sort == 'B' for v in key[0].flat)):
            return LazyRows(np.frompyfunc(sc.truth, 1, 1)(plain(key[0])), plain(self))
        if has_sym_index(key):
            if CFG['concretize_index']: key = conc_key(key)
            else: return sym_get(self, key)
        key = fix_key(key)
        if isinstance(key, MaskKey):
            m = np.array([bool(v) for v in key.m.flat], dtype=bool).reshape(key.m.shape)   # forks on each bit
            return np.ndarray.__getitem__(self, m)
        r = np.ndarray.__getitem__(self, key)
        if type(r) is Z and self.dk == 'f': return ZF(r)      # numpy would hand back a float64
        return r

    def __setitem__(self, key, val):
        if isinstance(key, LazyIdx): key = (key,)
        if isinstance(key, tuple) and any(isinstance(k, LazyIdx) for k in key): return lazy_set(self, key, val)
        if isinstance(val, MaskedVec):
            if (isinstance(key, np.ndarray) and key.dtype == object and key.shape == val.mask.shape == self.shape
                    and all((k is m) or (isinstance(k, bool) and isinstance(m, bool) and k == m) for k, m in zip(plain(key).flat, val.mask.flat))):
                a = plain(self); dk_ = self.dk             # A[mask] = B[i, k] + ... with (i, j) = np.where(mask): cell-wise ite, no fork
                for idx in np.ndindex(a.shape):
                    c = sc.truth(val.mask[idx])
                    if c is False: continue
                    a[idx] = sc.ite(c, coerce_store(val.dense[idx], dk_), a[idx])
                return
            val = val._conc()
        if isinstance(val, (LazyRows, LazyIdx)): val = val._conc()
        if isinstance(key, FlatView): key = key._flat_plain()
        dk = self.dk
        if isinstance(val, np.ndarray): val = np.frompyfunc(lambda v: coerce_store(v, dk), 1, 1)(to_obj(val)) if val.size else to_obj(val)
        elif isinstance(val, (list, tuple, range)):
            val = to_obj(val); val = np.frompyfunc(lambda v: coerce_store(v, dk), 1, 1)(val) if val.size else val
        else: val = coerce_store(val if is_sym(val) else norm_num(val), dk)
        if has_sym_index(key):
            if CFG['concretize_index']: key = conc_key(key)
            else: return sym_set(self, key, val)
        key2 = fix_key(key)
        if isinstance(key2, MaskKey): return mask_set(self, key2.m, val)
        np.ndarray.__setitem__(self, key2, val)

    # ---- methods that must not fall into numpy's object loops
    def astype(self, dtype, *a, **k):
        dk = dtype_kind(dtype)
        r = np.frompyfunc(lambda v: coerce_store(v, dk), 1, 1)(plain(self)) if self.size else plain(self).copy()
        return S(np.array(r, dtype=object), dk)
    def copy(self, *a, **k):
        r = np.ndarray.copy(self, *a, **k); r.dk = self.dk; return r
    def __bool__(self):
        if self.size != 1: raise ValueError('The truth value of an array with more than one element is ambiguous. Use a.any() or a.all()')
        return bool(sc.truth(plain(self).reshape(-1)[0]))
    def __index__(self):
        if self.size != 1: raise TypeError('only integer scalar arrays can be converted to a scalar index')
        return operator.index(plain(self).reshape(-1)[0])
    def __int__(self):
        if self.size != 1: raise TypeError('only size-1 arrays can be converted to Python scalars')
        return int(plain(self).reshape(-1)[0])
    def __float__(self):
        if self.size != 1: raise TypeError('only size-1 arrays can be converted to Python scalars')
        return float(plain(self).reshape(-1)[0])
    def __iter__(self):
        if self.ndim == 0: raise TypeError('iteration over a 0-d array')
        for t in range(self.shape[0]): yield self[t]
    def __contains__(self, v):
        return bool(ir.lor(*[sc.eq(x, v) for x in plain(self).flat]))
    def any(self, axis=None, out=None, keepdims=False, **k): return np.logical_or.reduce(self, axis=axis, keepdims=keepdims)
    def all(self, axis=None, out=None, keepdims=False, **k): return np.logical_and.reduce(self, axis=axis, keepdims=keepdims)
    def sum(self, axis=None, dtype=None, out=None, keepdims=False, **k): return np.add.reduce(self, axis=axis, keepdims=keepdims)
    def prod(self, axis=None, **k): return np.multiply.reduce(self, axis=axis)
    def max(self, axis=None, out=None, keepdims=False, **k): return np.maximum.reduce(self, axis=axis, keepdims=keepdims)
    def min(self, axis=None, out=None, keepdims=False, **k): return np.minimum.reduce(self, axis=axis, keepdims=keepdims)
    def mean(self, axis=None, **k): return f_mean(self, axis=axis)
    def std(self, axis=None, ddof=0, **k): return f_std(self, axis=axis, ddof=ddof)
    def var(self, axis=None, ddof=0, **k): return f_var(self, axis=axis, ddof=ddof)
    def dot(self, b, out=None): return f_dot(self, b)
    def argmax(self, axis=None, **k): return f_argmax(self, axis=axis)
    def argmin(self, axis=None, **k): return f_argmin(self, axis=axis)
    def argsort(self, axis=-1, kind=None, **k): return f_argsort(self, axis=axis)
    def sort(self, axis=-1, **k):
        r = f_sort(self, axis=axis); plain(self)[...] = plain(r)
    def nonzero(self): return f_where(self)
    def cumsum(self, axis=None, **k): return np.add.accumulate(self.reshape(-1) if axis is None else self)
    def round(self, decimals=0, out=None): return f_round(self, decimals)
    def trace(self, *a, **k): return f_trace(self)
    def fill(self, v): plain(self).fill(coerce_store(norm_num(v) if not is_sym(v) else v, self.dk))
    def tolist(self): return plain(self).tolist()
    def item(self, *a): return plain(self).item(*a)
    def setflags(self, **k): pass
    def flatten(self, order='C'): return S(plain(self).flatten(order), self.dk)
    def conj(self): return self
    @property
    def flat(self): return FlatView(self)
    @property
    def real(self): return self
    @property
    def imag(self): return S(np.zeros(self.shape, dtype=int))
    @property
    def dtype(self):
        return DT_FOR_KIND[self.dk] if REPORT_DTYPE[0] else np.ndarray.dtype.__get__(self)

REPORT_DTYPE = [False]
DT_FOR_KIND = {'b': np.dtype(bool), 'i': np.dtype(int), 'f': np.dtype(float)}

def dtype_kind(dtype):
    if dtype is None: return 'f'
    if dtype is bool or dtype == np.bool_: return 'b'
    if dtype is int: return 'i'
    if dtype is float: return 'f'
    try: k = np.dtype(dtype).kind
    except Exception: raise Unsupported('dtype %r' % (dtype,))
    if k == 'b': return 'b'
    if k in 'iu': return 'i'
    if k == 'f': return 'f'
    raise Unsupported('dtype %r' % (dtype,))

BOOL_RESULT = {'greater', 'greater_equal', 'less', 'less_equal', 'equal', 'not_equal', 'logical_not', 'logical_and',
               'logical_or', 'logical_xor', 'isnan', 'isinf', 'isfinite'}
FLOAT_RESULT = {'true_divide', 'divide', 'sqrt', 'log', 'exp', 'cbrt', 'log2', 'floor', 'ceil', 'rint', 'trunc'}
BOOL_REMAP = {'add': sc.lor, 'multiply': sc.land, 'subtract': None, 'negative': None, 'maximum': sc.lor, 'minimum': sc.land}
IDENT = {'add': Z(0), 'multiply': Z(1), 'logical_or': False, 'logical_and': True}

def result_kind(name, kinds):
    if name in BOOL_RESULT: return 'b'
    if name in FLOAT_RESULT: return 'f'
    if name in ('bitwise_and', 'bitwise_or', 'invert') : return max(kinds, key=KIND_RANK.get)
    k = max(kinds, key=KIND_RANK.get)
    if name == 'power' and k != 'f':
        return 'f' if kinds[-1] == 'f' else ('i' if k == 'b' else k)
    if name in ('sign', 'absolute') and k == 'b': return 'b'
    return k

class FlatView:
    def __init__(s, a): s.a = a
    def _flat(s):
        p = plain(s.a)
        if not p.flags['C_CONTIGUOUS']:
            out = np.empty(p.size, dtype=object)
            for t, v in enumerate(p.flat): out[t] = v
            return S(out, getattr(s.a, 'dk', 'f'))           # a copy: reads only
        return S(p.reshape(-1), getattr(s.a, 'dk', 'f'))
    def _flat_plain(s): return plain(s._flat())
    def __getitem__(s, k): return s._flat()[k]
    def __setitem__(s, k, v):
        p = plain(s.a)
        if isinstance(v, np.ndarray) and v.ndim > 1: v = S(v).reshape(-1)      # numpy flattens the value
        if p.flags['C_CONTIGUOUS']: s._flat()[k] = v; return
        if has_sym_index(k): raise Unsupported('flat store with symbolic index on a non-contiguous array')
        f = s._flat(); f[k] = v
        for t, idx in enumerate(np.ndindex(p.shape)): p[idx] = plain(f)[t]
    def __iter__(s): return iter(s._flat_plain())
    def __len__(s): return s.a.size
    def __array__(s, dtype=None, copy=None): return s._flat_plain()
    def __eq__(s, o): return s._flat() == o
    def __ne__(s, o): return s._flat() != o

def conc_key(key):
    if isinstance(key, T): return E().concretize(key)
    if isinstance(key, tuple): return tuple(conc_key(k) for k in key)
    if isinstance(key, np.ndarray) and key.dtype == object:
        return np.array([operator.index(v) for v in key.flat], dtype=int).reshape(key.shape)
    if isinstance(key, list): return [conc_key(k) for k in key]
    return key

def mask_set(arr, m, val):
    a = plain(arr)
    if m.shape != a.shape:
        if m.ndim == 1 and a.ndim == 2 and m.shape[0] == a.shape[0]:      # row mask
            for r in range(a.shape[0]):
                c = sc.truth(m[r])
                if c is False: continue
                for cc in range(a.shape[1]):
                    v = val if not isinstance(val, np.ndarray) else _unsup('row mask with array value')
                    a[r, cc] = sc.ite(c, v, a[r, cc])
            return
        raise Unsupported('mask shape')
    if isinstance(val, np.ndarray):
        if val.size == 1: val = val.reshape(-1)[0]
        else:
            # value array aligned with the (unknown) number of True cells: concretise the mask
            mm = np.array([bool(v) for v in m.flat], dtype=bool).reshape(m.shape)
            a[mm] = val; return
    for idx in np.ndindex(a.shape):
        c = sc.truth(m[idx])
        if c is False: continue
        a[idx] = sc.ite(c, val, a[idx])

def _unsup(msg): raise Unsupported(msg)

def sym_select(vals, idx):
    """vals[idx] for a symbolic integer idx (out-of-range is excluded by the caller / numpy semantics)"""
    r = vals[-1]
    for t in range(len(vals) - 2, -1, -1):
        r = sc.ite(ir.eq(idx, t), vals[t], r)
    return r

def _norm_idx(k, n):
    """python-style negative index wrap for a symbolic index"""
    return k

def sym_get(arr, key):
    a = plain(arr); dk = getattr(arr, 'dk', 'f')
    if not isinstance(key, tuple): key = (key,)
    if any(k is Ellipsis or k is None for k in key): raise Unsupported('sym_get ellipsis/newaxis')
    nfancy = sum(1 for k in key if isinstance(k, (np.ndarray, list, tuple)))
    if nfancy >= 2:
        ks = [list(to_obj(k).reshape(-1)) if isinstance(k, (np.ndarray, list, tuple)) else None for k in key]
        L = max(len(k) for k in ks if k is not None)
        outs = []
        for t in range(L):
            kk = tuple((k[t] if len(k) > 1 else k[0]) if k is not None else key[p] for p, k in enumerate(ks))
            outs.append(sym_get(arr, kk) if has_sym_index(kk) else a[tuple(_ci(x) for x in kk)])
        o = np.empty((L,) + (outs[0].shape if isinstance(outs[0], np.ndarray) else ()), dtype=object)
        for t, v in enumerate(outs): o[t] = v
        return S(o, dk)
    def rec(a, key):
        if not key: return a
        k, rest = key[0], key[1:]
        if isinstance(k, T):
            if a.shape[0] == 0: raise IndexError('index out of bounds for axis with size 0')
            subs = [rec(a[t], rest) for t in range(a.shape[0])]
            if isinstance(subs[0], np.ndarray):
                out = np.empty(subs[0].shape, dtype=object)
                for idx in np.ndindex(out.shape): out[idx] = sym_select([s[idx] for s in subs], k)
                return out
            return sym_select(subs, k)
        if isinstance(k, (int, np.integer)): return rec(a[int(k)], rest)
        if isinstance(k, slice):
            sub = a[k]
            if not rest: return sub
            outs = [rec(sub[t], rest) for t in range(sub.shape[0])]
        elif isinstance(k, (tuple, list, np.ndarray)):
            kk = to_obj(k)
            if kk.ndim != 1: raise Unsupported('sym_get nd index array')
            ks = list(kk)
            if ks and all(_is_bool_elem(v) for v in ks):
                ks = [t for t, v in enumerate(ks) if bool(v)]
            outs = [rec(a, (x,) + rest) for x in ks]
            if not outs:
                return np.empty((0,) + rec(a, (0,) + rest).shape if a.shape[0] else (0,), dtype=object)
        else: raise Unsupported('sym_get key %r' % (k,))
        o = np.empty((len(outs),) + (outs[0].shape if isinstance(outs[0], np.ndarray) else ()), dtype=object)
        for t, v in enumerate(outs): o[t] = v
        return o
    r = rec(a, key)
    return S(r, dk) if isinstance(r, np.ndarray) else r

def _ci(x):
    return x if isinstance(x, slice) else operator.index(x)

def sym_set(arr, key, val):
    a = plain(arr)
    if not isinstance(key, tuple): key = (key,)
    if any(k is Ellipsis or k is None for k in key): raise Unsupported('sym_set ellipsis/newaxis')
    key = key + (slice(None),) * (a.ndim - len(key))
    fancy = [isinstance(k, (np.ndarray, list, tuple)) for k in key]
    if sum(fancy) >= 2 or (sum(fancy) == 1 and a.ndim > 1 and any(isinstance(k, T) for k in key)):
        if not all(f or isinstance(k, (T, int, np.integer)) for f, k in zip(fancy, key)): raise Unsupported('sym_set fancy+slice')
        cols = [list(to_obj(k).reshape(-1)) if f else None for f, k in zip(fancy, key)]
        L = max(len(c) for c in cols if c is not None)
        if isinstance(val, np.ndarray):
            vs = list(np.broadcast_to(val, (L,)))
        else: vs = [val] * L
        for t in range(L):
            kk = tuple((c[t] if len(c) > 1 else c[0]) if c is not None else key[p] for p, c in enumerate(cols))
            if has_sym_index(kk): sym_set(arr, kk, vs[t])
            else: a[tuple(operator.index(x) for x in kk)] = vs[t]
        return
    if any(fancy):
        if a.ndim != 1 and not all(isinstance(k, slice) and k == slice(None) for f, k in zip(fancy, key) if not f):
            raise Unsupported('sym_set fancy nd')
        ax = fancy.index(True)
        ks = list(to_obj(key[ax]).reshape(-1))
        if a.ndim == 1:
            vs = list(np.broadcast_to(val, (len(ks),))) if isinstance(val, np.ndarray) else [val] * len(ks)
            for k, v in zip(ks, vs): sym_set(arr, (k,), v)
        else:
            for t, k in enumerate(ks):
                kk = tuple(k if p == ax else slice(None) for p in range(a.ndim))
                v = val
                if isinstance(val, np.ndarray) and val.ndim == a.ndim: v = np.take(val, t, axis=ax)
                sym_set(arr, kk, v)
        return
    sl_axes = [ax for ax, k in enumerate(key) if isinstance(k, slice)]
    ranges = {ax: range(*key[ax].indices(a.shape[ax])) for ax in sl_axes}
    vshape = tuple(len(ranges[ax]) for ax in sl_axes)
    v = np.broadcast_to(val, vshape) if isinstance(val, np.ndarray) else None
    for idx in np.ndindex(a.shape):
        conds = []; vidx = []; ok = True
        for ax, k in enumerate(key):
            t = idx[ax]
            if isinstance(k, T): conds.append(ir.eq(k, t))
            elif isinstance(k, slice):
                r = ranges[ax]
                if t not in r: ok = False; break
                vidx.append(r.index(t))
            else:
                kk = int(k)
                if kk < 0: kk += a.shape[ax]
                if kk != t: ok = False; break
        if not ok: continue
        newv = v[tuple(vidx)] if v is not None else val
        c = ir.land(*conds) if conds else True
        if c is False: continue
        a[idx] = sc.ite(c, newv, a[idx])

# ------------------------------------------------------------------ np functions
def _arg(x): return to_obj(x) if isinstance(x, (np.ndarray, list, tuple, range, FlatView) + SYMTYPES) else norm_num(x)

def f_where(cond, *xy):
    if isinstance(cond, FlatView): cond = cond._flat()
    c = to_obj(cond)
    if xy:
        kx = max([kind_of(xy[0]), kind_of(xy[1])], key=KIND_RANK.get)
        return S(np.frompyfunc(lambda cc, a, b: sc.ite(sc.truth(cc), a, b), 3, 1)(c, _arg(xy[0]), _arg(xy[1])), kx)
    if CFG['lazy_where'] and c.ndim in (1, 2) and any(isinstance(v, SYMTYPES) for v in c.flat):
        cm = np.frompyfunc(sc.truth, 1, 1)(c)
        return tuple(LazyIdx(cm, ax) for ax in range(c.ndim))
    m = np.array([bool(sc.truth(v)) for v in c.flat], dtype=bool).reshape(c.shape)
    return tuple(S(ix) for ix in np.nonzero(m))

def f_dot(a, b, out=None):
    ka = max([kind_of(a), kind_of(b)], key=KIND_RANK.get)
    a, b = to_obj(a), to_obj(b)
    mulf, addf = (sc.land, sc.lor) if ka == 'b' else (sc.mul, sc.add)
    zero = False if ka == 'b' else 0
    if a.ndim == 0 or b.ndim == 0:
        return S(np.frompyfunc(mulf, 2, 1)(a, b), ka) if (a.ndim or b.ndim) else mulf(a[()], b[()])
    if a.ndim == 1 and b.ndim == 1:
        if len(a) != len(b): raise ValueError('shapes not aligned')
        return functools.reduce(addf, [mulf(x, y) for x, y in zip(a, b)], zero)
    A = a if a.ndim == 2 else a[None, :]; B = b if b.ndim == 2 else b[:, None]
    if A.ndim != 2 or B.ndim != 2: raise Unsupported('dot nd')
    if A.shape[1] != B.shape[0]: raise ValueError('shapes %s and %s not aligned' % (a.shape, b.shape))
    out_ = np.empty((A.shape[0], B.shape[1]), dtype=object)
    for i in range(A.shape[0]):
        for j in range(B.shape[1]):
            out_[i, j] = functools.reduce(addf, [mulf(A[i, k], B[k, j]) for k in range(A.shape[1])], zero)
    if a.ndim == 1: out_ = out_[0]
    elif b.ndim == 1: out_ = out_[:, 0]
    return S(out_, ka)

def f_tril(m, k=0):
    dk = kind_of(m); a = to_obj(m).copy(); a[~np.tri(*a.shape[-2:], k=k, dtype=bool)] = (False if dk == 'b' else 0); return S(a, dk)
def f_triu(m, k=0):
    dk = kind_of(m); a = to_obj(m).copy(); a[np.tri(*a.shape[-2:], k=k - 1, dtype=bool)] = (False if dk == 'b' else 0); return S(a, dk)

ALLCLOSE_EXACT = [True]
def f_allclose(a, b, rtol=1e-5, atol=1e-8, **k):
    a, b = to_obj(a), to_obj(b)
    if not (any_sym(a) or any_sym(b)):
        fa = np.array([float(v) for v in a.flat]).reshape(a.shape); fb = np.array([float(v) for v in b.flat]).reshape(b.shape)
        return bool(np.allclose(fa, fb, rtol=rtol, atol=atol))
    # symbolic: |a-b| <= atol + rtol*|b| in exact arithmetic
    rt, at = Fraction(rtol), Fraction(atol)
    def close(x, y):
        if not is_sym(x) and not is_sym(y) and not isinstance(x, float) and not isinstance(y, float):
            return abs(x - y) <= at + rt * abs(y)
        if x is y: return True
        if special_any(x, y): return sc.eq(x, y)
        return sc.le(sc.sabs(sc.sub(x, y)), sc.add(at, sc.mul(rt, sc.sabs(y))))
    r = np.frompyfunc(close, 2, 1)(a, b)
    return bool(ir.land(*list(np.asarray(r, dtype=object).flat)))
def special_any(*xs): return any(isinstance(x, (float, Ext)) for x in xs)

def f_isclose(a, b, rtol=1e-5, atol=1e-8, **k):
    rt, at = Fraction(rtol), Fraction(atol)
    def close(x, y):
        if special_any(x, y): return sc.eq(x, y)
        return sc.le(sc.sabs(sc.sub(x, y)), sc.add(at, sc.mul(rt, sc.sabs(y))))
    return S(np.frompyfunc(close, 2, 1)(to_obj(a), to_obj(b)), 'b')

def f_fill_diagonal(a, v, wrap=False):
    if not isinstance(a, SymArray): raise Unsupported('fill_diagonal on plain array inside facade')
    p = plain(a); vv = coerce_store(norm_num(v) if not is_sym(v) else v, a.dk)
    if p.ndim != 2: raise Unsupported('fill_diagonal nd')
    for t in range(min(p.shape)): p[t, t] = vv

def _arg_ext(a, axis, better):
    if axis is not None:
        a = to_obj(a)
        if a.ndim == 1: return _arg_ext(a, None, better)
        if a.ndim != 2: raise Unsupported('argmax nd axis')
        rows = a.T if axis == 0 else a
        return S(np.array([_arg_ext(r, None, better) for r in rows], dtype=object), 'i')
    a = to_obj(a).reshape(-1)
    if len(a) == 0: raise ValueError('attempt to get argmax of an empty sequence')
    best = a[0]; bi = 0
    for t in range(1, len(a)):
        c = better(a[t], best)
        bi = ir.ite(c, t, bi); best = sc.ite(c, a[t], best)
    if CFG['concretize_index'] and isinstance(bi, T): bi = E().concretize(bi)
    return bi
def f_argmax(a, axis=None, **k): return _arg_ext(a, axis, sc.gt)
def f_argmin(a, axis=None, **k): return _arg_ext(a, axis, sc.lt)

class LazyUnique:
    """first result of np.unique(x, return_inverse=True) on symbolic labels: only its length may be asked"""
    def __init__(self, vals, first): self.vals = vals; self.first = first
    def __len__(self):
        return int(functools.reduce(ir.add, [ir.ite(f, 1, 0) for f in self.first], 0))
    @property
    def size(self): return functools.reduce(ir.add, [ir.ite(f, 1, 0) for f in self.first], 0)

def f_unique(a, return_index=False, return_inverse=False, return_counts=False, axis=None, **k):
    if axis is not None: raise Unsupported('unique axis')
    a = to_obj(a).reshape(-1)
    if a.size and any(isinstance(v, complex) for v in a):          # concrete complex keys (partition_distance's joint labels)
        r = np.unique(np.array([complex(v) for v in a]), return_index=return_index, return_inverse=return_inverse, return_counts=return_counts)
        if isinstance(r, tuple): return (r[0],) + tuple(S(x) for x in r[1:])
        return r
    dk = kind_of(a)
    if not any_sym(a):
        if any(isinstance(v, Fraction) for v in a): arr_ = np.array([float(v) for v in a])
        elif dk == 'b': arr_ = np.array([bool(v) for v in a])
        elif all(isinstance(v, int) for v in a): arr_ = np.array([int(v) for v in a], dtype=int)
        else: arr_ = np.array([float(v) for v in a])
        r = np.unique(arr_, return_index=return_index, return_inverse=return_inverse, return_counts=return_counts)
        if isinstance(r, tuple):
            # keep exact values for the unique array itself
            u = _exact_unique(a)
            return (S(u, dk),) + tuple(S(x) for x in r[1:])
        return S(_exact_unique(a), dk)
    if return_index or return_counts: raise Unsupported('unique variant on symbolic')
    n = len(a)
    first = [ir.land(*[sc.ne(a[j], a[i]) for j in range(i)]) for i in range(n)]
    if not return_inverse:
        # sorted distinct values, length unknown -> concretise the equality pattern by forking
        keep = [t for t in range(n) if bool(first[t])]
        return f_sort(S(a[keep], dk))
    inv = []
    for i in range(n):
        inv.append(functools.reduce(ir.add, [ir.ite(ir.land(first[j], sc.lt(a[j], a[i])), 1, 0) for j in range(n)], 0))
    return LazyUnique(a, first), S(np.array(inv, dtype=object), 'i')

def _exact_unique(a):
    vals = sorted(set(a.tolist()), key=lambda v: (float(v)))
    out = np.empty(len(vals), dtype=object)
    for t, v in enumerate(vals): out[t] = v
    return out

def f_ix(*args):
    out = []
    for a in args:
        if isinstance(a, (LazyIdx, MaskedVec)): a = a._conc()
        o = to_obj(a).reshape(-1)
        if len(o) and all(_is_bool_elem(v) for v in o): out.append(np.array([t for t, v in enumerate(o) if bool(v)], dtype=int))
        elif any(_is_symint(v) for v in o) and not CFG['concretize_index']:
            return SymIx([list(to_obj(x).reshape(-1)) for x in args])
        else: out.append(np.array([operator.index(v) for v in o], dtype=int))
    return np.ix_(*out)

class SymIx(tuple):
    """np.ix_ with symbolic index vectors: open mesh resolved element-wise by SymArray.__getitem__"""
    def __new__(cls, cols):
        self = tuple.__new__(cls, ()); self.cols = cols; return self

def f_outer(a, b, out=None):
    k = max([kind_of(a), kind_of(b)], key=KIND_RANK.get)
    a, b = to_obj(a).reshape(-1), to_obj(b).reshape(-1)
    return S(np.frompyfunc(sc.land if k == 'b' else sc.mul, 2, 1)(a[:, None], b[None, :]), k)
def f_trace(a, **k):
    a = to_obj(a); return functools.reduce(sc.add, [a[t, t] for t in range(min(a.shape))], 0)
def f_diag(a, k=0): return S(np.diag(to_obj(a), k), kind_of(a))
def f_mean(a, axis=None, **k):
    a = S(a); n = a.size if axis is None else a.shape[axis]
    s = np.add.reduce(a, axis=axis)
    if n == 0: return float('nan')
    return s / n if isinstance(s, np.ndarray) else sc.div(s, n)
def f_var(a, axis=None, ddof=0, **k):
    a = S(a)
    if axis is None: a = a.reshape(-1); axis = 0
    n = a.shape[axis]; m = f_mean(a, axis=axis)
    d = a - (np.expand_dims(m, axis) if isinstance(m, np.ndarray) else m)
    s = np.add.reduce(d * d, axis=axis)
    return s / (n - ddof) if isinstance(s, np.ndarray) else sc.div(s, n - ddof)
def f_std(a, axis=None, ddof=0, **k):
    v = f_var(a, axis=axis, ddof=ddof)
    return np.sqrt(v) if isinstance(v, np.ndarray) else sc.PYOPS['sqrt'](v)
def f_round(a, decimals=0, out=None):
    if decimals != 0:
        if isinstance(a, np.ndarray) and not any_sym(to_obj(a)):
            o = to_obj(a); sft = 10 ** decimals
            return S(np.frompyfunc(lambda v: v if isinstance(v, float) else norm_num(Fraction(round(Fraction(v) * sft), sft)), 1, 1)(o), 'f' if kind_of(a) != 'i' else 'i')
        raise Unsupported('round decimals on symbolic')
    if isinstance(a, np.ndarray): return S(np.frompyfunc(sc.rint, 1, 1)(to_obj(a)), kind_of(a))
    return sc.rint(a)

def f_sort(a, axis=-1, **k):
    dk = kind_of(a); a = to_obj(a)
    if a.ndim == 0: raise ValueError('cannot sort 0-d')
    if a.ndim > 1:
        if axis in (-1, a.ndim - 1):
            out = np.empty(a.shape, dtype=object)
            for idx in np.ndindex(a.shape[:-1]): out[idx] = plain(f_sort(a[idx]))
            return S(out, dk)
        if axis == 0 and a.ndim == 2: return S(plain(f_sort(a.T, axis=-1)).T, dk)
        raise Unsupported('sort axis')
    idx = f_argsort(a)
    pi = plain(idx)
    if any(isinstance(v, T) for v in pi): return S(plain(sym_get(S(a, dk), (pi,))), dk)
    return S(a[np.array([int(v) for v in pi], dtype=int)], dk)

def f_argsort(a, axis=-1, kind=None, **k):
    a = to_obj(a)
    if a.ndim != 1:
        if a.ndim == 2 and axis in (-1, 1): return S(np.array([plain(f_argsort(r)) for r in a], dtype=object), 'i')
        if a.ndim == 2 and axis == 0: return S(np.array([plain(f_argsort(r)) for r in a.T], dtype=object).T, 'i')
        raise Unsupported('argsort nd')
    n = len(a)
    if not any_sym(a):
        return S(np.argsort(np.array([float(v) for v in a]), kind='stable' if kind in (None, 'stable', 'mergesort') else kind))
    e = E()
    if CFG['argsort_declarative']:
        idx = [e.fresh('srt', 'I', lo=0, hi=n, hi_open=True) for _ in range(n)]
        for i in range(n):
            for j in range(i): e.assume(ir.ne(idx[i], idx[j]))
        vals = [sym_select(list(a), idx[t]) for t in range(n)]
        for t in range(n - 1): e.assume(sc.le(vals[t], vals[t + 1]))
        return S(np.array(idx, dtype=object), 'i')
    # fork: concrete order by insertion with symbolic comparisons (stable)
    order = []
    for t in range(n):
        pos = len(order)
        while pos > 0 and bool(sc.lt(a[t], a[order[pos - 1]])): pos -= 1
        order.insert(pos, t)
    return S(np.array(order, dtype=int))

def f_cumsum(a, axis=None, **k):
    a = S(a)
    if axis is None: a = a.reshape(-1)
    elif a.ndim != 1: raise Unsupported('cumsum axis')
    return np.add.accumulate(a)

def f_intersect1d(a, b, **k):
    a, b = to_obj(a).reshape(-1), to_obj(b).reshape(-1)
    if any_sym(a) or any_sym(b): raise Unsupported('intersect1d symbolic')
    return S(np.intersect1d(np.array([int(v) for v in a], dtype=int), np.array([int(v) for v in b], dtype=int)))
def f_setdiff1d(a, b, **k):
    a, b = to_obj(a).reshape(-1), to_obj(b).reshape(-1)
    if any_sym(a) or any_sym(b): raise Unsupported('setdiff1d symbolic')
    return S(np.setdiff1d(np.array([int(v) for v in a], dtype=int), np.array([int(v) for v in b], dtype=int)))
def f_union1d(a, b, **k):
    a, b = to_obj(a).reshape(-1), to_obj(b).reshape(-1)
    if any_sym(a) or any_sym(b): raise Unsupported('union1d symbolic')
    return S(np.union1d(np.array([int(v) for v in a], dtype=int), np.array([int(v) for v in b], dtype=int)))
def f_isin(a, b, **k):
    a, b = to_obj(a), to_obj(b).reshape(-1)
    return S(np.frompyfunc(lambda v: ir.lor(*[sc.eq(v, w) for w in b]), 1, 1)(a), 'b')

def f_delete(arr, obj, axis=None):
    dk = kind_of(arr); a = to_obj(arr)
    if isinstance(obj, (LazyIdx, MaskedVec)): obj = obj._conc()
    o = to_obj(obj) if isinstance(obj, (np.ndarray, list, tuple) + SYMTYPES) else obj
    if isinstance(o, np.ndarray):
        if o.dtype == object and any(_is_bool_elem(v) and not isinstance(v, (int,)) or isinstance(v, bool) for v in o.flat) and o.size:
            o = np.array([bool(v) for v in o.flat], dtype=bool)
        else:
            o = np.array([operator.index(v) for v in o.flat], dtype=int)
    return S(np.delete(a, o, axis=axis), dk)

def f_append(arr, values, axis=None):
    k = max([kind_of(arr), kind_of(values)], key=KIND_RANK.get)
    if isinstance(arr, (LazyIdx, MaskedVec)): arr = arr._conc()
    if isinstance(values, (LazyIdx, MaskedVec)): values = values._conc()
    return S(np.append(to_obj(arr), to_obj(values), axis=axis), k)

def f_concat(arrs, axis=0, **k):
    arrs = [x._conc() if isinstance(x, (LazyIdx, MaskedVec)) else x for x in arrs]
    kk = max([kind_of(x) for x in arrs], key=KIND_RANK.get)
    return S(np.concatenate([to_obj(x) for x in arrs], axis=axis), kk)
def f_hstack(arrs, **k):
    arrs = list(arrs); kk = max([kind_of(x) for x in arrs], key=KIND_RANK.get)
    return S(np.hstack([to_obj(x) for x in arrs]), kk)
def f_vstack(arrs, **k):
    arrs = list(arrs); kk = max([kind_of(x) for x in arrs], key=KIND_RANK.get)
    return S(np.vstack([to_obj(x) for x in arrs]), kk)
def f_stack(arrs, axis=0, **k):
    arrs = list(arrs); kk = max([kind_of(x) for x in arrs], key=KIND_RANK.get)
    return S(np.stack([to_obj(x) for x in arrs], axis=axis), kk)
def f_tile(a, reps): return S(np.tile(to_obj(a), reps), kind_of(a))
def f_repeat(a, repeats, axis=None): return S(np.repeat(to_obj(a), repeats, axis=axis), kind_of(a))
def f_size(a, axis=None):
    if isinstance(a, (LazyIdx,)): return a.size
    if isinstance(a, tuple) and a and all(isinstance(x, LazyIdx) for x in a):
        return ir.mul(len(a), a[0].size)
    return np.size(to_obj(a) if isinstance(a, (np.ndarray, list, tuple)) else a, axis)
def f_prod(a, axis=None, **k): return np.multiply.reduce(S(a), axis=axis)
def f_nonzero(a): return f_where(a)
def f_count_nonzero(a, axis=None, **k):
    return np.add.reduce(S(np.frompyfunc(sc.truth, 1, 1)(to_obj(a)), 'b'), axis=axis)
def f_zeros_like(a, dtype=None, **k):
    dk = dtype_kind(dtype) if dtype is not None else kind_of(a)
    return S(np.zeros(np.shape(a), dtype=bool if dk == 'b' else int), dk)
def f_ones_like(a, dtype=None, **k):
    dk = dtype_kind(dtype) if dtype is not None else kind_of(a)
    return S(np.ones(np.shape(a), dtype=bool if dk == 'b' else int), dk)
def f_triu_indices_from(a, k=0): return np.triu_indices(a.shape[0], k, a.shape[1])
def f_tril_indices_from(a, k=0): return np.tril_indices(a.shape[0], k, a.shape[1])
def f_array_equal(a, b, **k):
    a, b = to_obj(a), to_obj(b)
    if a.shape != b.shape: return False
    return bool(ir.land(*[sc.eq(x, y) for x, y in zip(a.flat, b.flat)]))
def f_clip(a, lo, hi, **k):
    r = S(a)
    if lo is not None: r = np.maximum(r, lo)
    if hi is not None: r = np.minimum(r, hi)
    return r
def f_inner(a, b): return f_dot(a, np.transpose(b) if np.ndim(b) == 2 else b)
def f_copyto(dst, src, **k): dst[...] = src
def f_real(a): return a
def f_nan_to_num(a, **k): raise Unsupported('nan_to_num')
def f_squeeze(a, axis=None): return S(np.squeeze(to_obj(a), axis=axis), kind_of(a))
def f_flatnonzero(a): return f_where(S(a).reshape(-1))[0]
def f_histogram(a, bins=10, range=None, **k):
    a = to_obj(a).reshape(-1)
    if any_sym(a): raise Unsupported('histogram symbolic')
    h, e = np.histogram(np.array([float(v) for v in a]), bins=bins if not isinstance(bins, np.ndarray) else np.array([float(v) for v in to_obj(bins)]), range=range)
    return S(h), S(e)
def f_lexsort(*a, **k): raise Unsupported('lexsort')
def f_diff(a, n=1, axis=-1, **k):
    a = S(a)
    if a.ndim != 1 or n != 1: raise Unsupported('diff nd')
    return a[1:] - a[:-1]
def f_sum(a, axis=None, dtype=None, out=None, keepdims=False, **k):
    if isinstance(a, (MaskedVec, LazyRows, LazyIdx)): a = a._conc()
    if not isinstance(a, np.ndarray):
        a = list(a) if not isinstance(a, (list, tuple)) else a
    return np.add.reduce(S(a), axis=axis, keepdims=keepdims)
def _red(uf):
    def f(a, axis=None, out=None, keepdims=False, **k):
        if isinstance(a, LazyRows) and uf is np.logical_or: return a.any(axis=axis)
        if isinstance(a, (MaskedVec, LazyRows, LazyIdx)): a = a._conc()
        return uf.reduce(S(a), axis=axis, keepdims=keepdims)
    return f

FUNCS = {'argsort': f_argsort, 'sort': f_sort, 'where': f_where, 'dot': f_dot, 'matmul': f_dot, 'tril': f_tril, 'triu': f_triu,
         'allclose': f_allclose, 'isclose': f_isclose, 'inner': f_inner, 'copyto': f_copyto,
         'fill_diagonal': f_fill_diagonal, 'argmax': f_argmax, 'argmin': f_argmin, 'unique': f_unique,
         'copy': lambda a, **k: S(to_obj(a).copy(), kind_of(a)), 'outer': f_outer, 'trace': f_trace, 'diag': f_diag,
         'round': f_round, 'around': f_round, 'mean': f_mean, 'var': f_var, 'std': f_std, 'cumsum': f_cumsum,
         'intersect1d': f_intersect1d, 'setdiff1d': f_setdiff1d, 'union1d': f_union1d, 'isin': f_isin, 'in1d': f_isin,
         'delete': f_delete, 'append': f_append, 'concatenate': f_concat, 'hstack': f_hstack, 'vstack': f_vstack,
         'stack': f_stack, 'tile': f_tile, 'repeat': f_repeat, 'size': f_size, 'prod': f_prod, 'nonzero': f_nonzero,
         'count_nonzero': f_count_nonzero, 'zeros_like': f_zeros_like, 'ones_like': f_ones_like,
         'triu_indices_from': f_triu_indices_from, 'tril_indices_from': f_tril_indices_from,
         'array_equal': f_array_equal, 'clip': f_clip, 'real': f_real, 'squeeze': f_squeeze, 'flatnonzero': f_flatnonzero,
         'histogram': f_histogram, 'diff': f_diff,
         'sum': f_sum, 'any': _red(np.logical_or), 'all': _red(np.logical_and),
         'max': _red(np.maximum), 'min': _red(np.minimum), 'amax': _red(np.maximum), 'amin': _red(np.minimum)}
PASS = {'transpose', 'reshape', 'ravel', 'shape', 'ndim', 'atleast_2d', 'atleast_1d', 'moveaxis', 'expand_dims',
        'diagonal', 'flip', 'swapaxes', 'broadcast_to', 'fliplr', 'flipud', 'roll', 'rot90', 'take', 'array_split', 'split'}

# ------------------------------------------------------------------ np proxy (module global `np` of every bct module)
class _Masked:
    """minimal np.ma.masked_where result: reductions over the unmasked entries"""
    def __init__(self, mask, data): self.mask = to_obj(mask); self.data = to_obj(data)
    def _red(self, f, axis):
        m = np.array([bool(sc.truth(v)) for v in self.mask.flat], dtype=bool).reshape(self.mask.shape)     # forks on symbolic bits
        d = self.data
        def one(vals, ms):
            keep = [v for v, mm in zip(vals, ms) if not mm]
            if not keep: return Z(10 ** 20)          # numpy: fully masked -> fill_value when converted to ndarray
            return functools.reduce(f, keep)
        if axis is None: return one(list(d.flat), list(m.flat))
        if d.ndim != 2: raise Unsupported('masked reduce nd')
        rows = (d, m) if axis == 1 else (d.T, m.T)
        return S(np.array([one(list(r), list(mr)) for r, mr in zip(*rows)], dtype=object), 'f')
    def max(self, axis=None, **k): return self._red(sc.smax, axis)
    def min(self, axis=None, **k): return self._red(sc.smin, axis)
    def sum(self, axis=None, **k): return self._red(sc.add, axis)
    def __array__(self, dtype=None, copy=None): return plain(S(self.data))

class _MaProxy:
    def masked_where(self, cond, a, copy=True): return _Masked(cond, a)
    def masked_array(self, a, mask=False, **k): return _Masked(mask if mask is not False else np.zeros(np.shape(a), dtype=bool), a)
    def __getattr__(self, name): raise Unsupported('np.ma.' + name)

class _LinalgProxy:
    """LAPACK is not encoded.  Only harnesses that do not look at the numerical result may switch on the stub below
    (CFG['linalg_solve_stub']): solve(B, b) then returns an arbitrary vector of positive reals of b's shape."""
    def __getattr__(self, name):
        if name == 'solve' and CFG.get('linalg_solve_stub'): return self._solve
        raise Unsupported('np.linalg.%s (LAPACK) is not encoded' % name)
    def _solve(self, B, b):
        b = S(b); e = E()
        out = np.empty(b.shape, dtype=object)
        for idx in np.ndindex(b.shape): out[idx] = e.fresh('solve', 'R', lo=0, lo_open=True)
        return S(out, 'f')

class NpProxy:
    """forwards everything to numpy except array creators and the few functions that cannot dispatch"""
    def __init__(self, random=None):
        self._random = random
    def __getattr__(self, name): return getattr(np, name)
    @property
    def random(self):
        if self._random is None: raise Unsupported('np.random used but no global stream installed')
        return self._random
    @property
    def ma(self): return _MaProxy()
    def zeros(self, shape, dtype=None, **k):
        dk = dtype_kind(dtype); shape = _shape(shape)
        return S(np.zeros(shape, dtype=bool if dk == 'b' else int), dk)
    def ones(self, shape, dtype=None, **k):
        dk = dtype_kind(dtype); shape = _shape(shape)
        return S(np.ones(shape, dtype=bool if dk == 'b' else int), dk)
    def empty(self, shape, dtype=None, **k): return self.zeros(shape, dtype)
    def full(self, shape, v, dtype=None, **k):
        r = self.zeros(shape, dtype if dtype is not None else (bool if isinstance(v, bool) else int if isinstance(v, int) else float))
        r.fill(v); return r
    def eye(self, n, M=None, k=0, dtype=None, **kw): return S(np.eye(_ci(n), M, k, dtype=int), dtype_kind(dtype))
    def identity(self, n, dtype=None): return S(np.eye(_ci(n), dtype=int), dtype_kind(dtype))
    def arange(self, *a, dtype=None, **k):
        r = np.arange(*[float(x) if isinstance(x, Fraction) else x for x in a])
        return S(r, dtype_kind(dtype) if dtype is not None else None)
    def linspace(self, *a, **k): return S(np.linspace(*a, **k))
    def array(self, x, dtype=None, copy=True, **k):
        if isinstance(x, (MaskedVec, LazyRows, LazyIdx)): x = x._conc()
        if isinstance(x, _Masked): x = S(x.data)
        dk = dtype_kind(dtype) if dtype is not None else kind_of(x)
        if isinstance(x, (list, tuple)) and any(isinstance(v, (MaskedVec, LazyRows, LazyIdx)) for v in x):
            x = [v._conc() if isinstance(v, (MaskedVec, LazyRows, LazyIdx)) else v for v in x]
        o = to_obj(x)
        o = np.frompyfunc(lambda v: coerce_store(v, dk), 1, 1)(o) if o.size else o.copy()
        return S(np.array(o, dtype=object), dk)
    def asarray(self, x, dtype=None, **k):
        # numpy hands back the caller's own array when no conversion is needed (dtype absent or of the array's own kind)
        if isinstance(x, SymArray) and (dtype is None or dtype_kind(dtype) == x.dk): return x
        return self.array(x, dtype)
    @property
    def linalg(self): return _LinalgProxy()
    def round(self, x, decimals=0, *a):
        if isinstance(x, (int, float, np.floating, np.integer)) and not isinstance(x, bool): return np.round(x, decimals)
        if isinstance(x, Fraction) and decimals == 0: return np.float64(round(x))     # half-to-even, like numpy
        return f_round(x, decimals)
    around = round
    def ceil(self, x):
        if isinstance(x, (int, float, np.floating, np.integer)): return np.ceil(x)
        return sc.ceil(x) if not isinstance(x, np.ndarray) else np.ceil(x)
    def floor(self, x):
        if isinstance(x, (int, float, np.floating, np.integer)): return np.floor(x)
        return sc.floor(x) if not isinstance(x, np.ndarray) else np.floor(x)
    def ix_(self, *args): return f_ix(*args)
    def where(self, *a): return f_where(*a)
    def size(self, a, axis=None): return f_size(a, axis)
    def sum(self, a, axis=None, **k):
        if isinstance(a, np.ndarray) or hasattr(a, '_conc'): return f_sum(a, axis=axis, **k)
        if isinstance(a, (list, tuple)): return f_sum(a, axis=axis, **k)
        if hasattr(a, '__iter__'): return functools.reduce(sc.add, list(a), 0)    # generator (deprecated numpy behaviour)
        return a
    def any(self, a, axis=None, **k): return _red(np.logical_or)(a, axis=axis, **k) if not _scalar_like(a) else sc.truth(a)
    def all(self, a, axis=None, **k): return _red(np.logical_and)(a, axis=axis, **k) if not _scalar_like(a) else sc.truth(a)
    def max(self, a, axis=None, **k): return _red(np.maximum)(a, axis=axis, **k) if not _scalar_like(a) else a
    def min(self, a, axis=None, **k): return _red(np.minimum)(a, axis=axis, **k) if not _scalar_like(a) else a
    def mod(self, a, b): return np.remainder(S(a) if not _scalar_like(a) else a, b)
    def append(self, a, v, axis=None): return f_append(a, v, axis)
    def delete(self, a, o, axis=None): return f_delete(a, o, axis)
    def hstack(self, t, **k): return f_hstack(t)
    def vstack(self, t, **k): return f_vstack(t)
    def concatenate(self, t, axis=0, **k): return f_concat(t, axis)
    def stack(self, t, axis=0, **k): return f_stack(t, axis)
    def tile(self, a, reps): return f_tile(a, reps)
    def repeat(self, a, r, axis=None): return f_repeat(a, r, axis)
    def unique(self, a, **k): return f_unique(a, **k)
    def sort(self, a, axis=-1, **k): return f_sort(a, axis)
    def argsort(self, a, axis=-1, **k): return f_argsort(a, axis)
    def cumsum(self, a, axis=None, **k): return f_cumsum(a, axis)
    def intersect1d(self, a, b, **k): return f_intersect1d(a, b)
    def setdiff1d(self, a, b, **k): return f_setdiff1d(a, b)
    def union1d(self, a, b, **k): return f_union1d(a, b)
    def outer(self, a, b): return f_outer(a, b)
    def dot(self, a, b, out=None):
        if _scalar_like(a) and _scalar_like(b): return sc.mul(a, b)
        return f_dot(a, b)
    def diag(self, a, k=0): return f_diag(a, k)
    def triu(self, a, k=0): return f_triu(a, k)
    def tril(self, a, k=0): return f_tril(a, k)
    def trace(self, a, **k): return f_trace(a)
    def mean(self, a, axis=None, **k): return f_mean(a, axis)
    def std(self, a, axis=None, ddof=0, **k): return f_std(a, axis, ddof)
    def var(self, a, axis=None, ddof=0, **k): return f_var(a, axis, ddof)
    def prod(self, a, axis=None, **k):
        if isinstance(a, tuple) and all(isinstance(v, (int, np.integer)) for v in a): return int(np.prod(a))
        return f_prod(a, axis)
    def argmax(self, a, axis=None, **k): return f_argmax(a, axis)
    def argmin(self, a, axis=None, **k): return f_argmin(a, axis)
    def nonzero(self, a): return f_where(a)
    def squeeze(self, a, axis=None): return f_squeeze(a, axis)
    def allclose(self, a, b, **k): return f_allclose(a, b, **k)
    def fill_diagonal(self, a, v, wrap=False): return f_fill_diagonal(a, v)
    def isin(self, a, b, **k): return f_isin(a, b)
    def in1d(self, a, b, **k): return f_isin(a, b)
    def zeros_like(self, a, dtype=None, **k): return f_zeros_like(a, dtype)
    def ones_like(self, a, dtype=None, **k): return f_ones_like(a, dtype)
    def histogram(self, a, bins=10, range=None, **k): return f_histogram(a, bins, range)
    def flatnonzero(self, a): return f_flatnonzero(a)
    def count_nonzero(self, a, axis=None, **k): return f_count_nonzero(a, axis)
    def real(self, a): return a
    def triu_indices(self, n, k=0, m=None): return np.triu_indices(_ci(n), k, m)
    def tril_indices(self, n, k=0, m=None): return np.tril_indices(_ci(n), k, m)
    def corrcoef(self, x, y=None, **k): return CORRCOEF[0](x, y)
    def meshgrid(self, *a, **k): return tuple(S(x) for x in np.meshgrid(*[plain(S(v)) for v in a], **k))
    def isscalar(self, x): return isinstance(x, SYMTYPES) or np.isscalar(x)
    def ndim(self, x): return 0 if isinstance(x, SYMTYPES) else np.ndim(x)
    def shape(self, x): return () if isinstance(x, SYMTYPES) else np.shape(x)
    def sign(self, x): return sc.ssign(x) if _scalar_like(x) else np.sign(x)
    def abs(self, x): return sc.sabs(x) if _scalar_like(x) else np.abs(x)
    def sqrt(self, x): return sc.PYOPS['sqrt'](x) if _scalar_like(x) else np.sqrt(x)
    def log(self, x): return sc.PYOPS['log'](x) if _scalar_like(x) else np.log(x)
    def exp(self, x): return sc.PYOPS['exp'](x) if _scalar_like(x) else np.exp(x)
    def isnan(self, x): return sc.s_isnan(sc.n_(x)) if _scalar_like(x) else np.isnan(x)
    def isinf(self, x): return sc.s_isinf(sc.n_(x)) if _scalar_like(x) else np.isinf(x)
    def logical_not(self, x, **k): return sc.lnot(x) if _scalar_like(x) else np.logical_not(S(x), **k)
    def logical_or(self, a, b, **k): return sc.lor(a, b) if _scalar_like(a) and _scalar_like(b) else np.logical_or(_sa(a), _sa(b), **k)
    def logical_and(self, a, b, **k): return sc.land(a, b) if _scalar_like(a) and _scalar_like(b) else np.logical_and(_sa(a), _sa(b), **k)
    def maximum(self, a, b, **k): return sc.smax(a, b) if _scalar_like(a) and _scalar_like(b) else np.maximum(_sa(a), _sa(b), **k)
    def minimum(self, a, b, **k): return sc.smin(a, b) if _scalar_like(a) and _scalar_like(b) else np.minimum(_sa(a), _sa(b), **k)
    def power(self, a, b, **k): return sc.power(a, b) if _scalar_like(a) and _scalar_like(b) else np.power(_sa(a), b, **k)
    def multiply(self, a, b, **k): return sc.mul(a, b) if _scalar_like(a) and _scalar_like(b) else np.multiply(_sa(a), _sa(b), **k)
    add = np.add
    def transpose(self, a, axes=None): return np.transpose(S(a), axes)
    def reshape(self, a, shape, **k): return np.reshape(S(a), shape)
    def ravel(self, a, **k): return np.ravel(S(a))
    def log2(self, x): return np.log2(x) if isinstance(x, (int, float)) else (sc.PYOPS['log2'](x) if _scalar_like(x) else np.log2(x))
    def float64(self, x): return x if isinstance(x, SYMTYPES) else np.float64(x)
    def int64(self, x): return sc.trunc(x) if isinstance(x, SYMTYPES) else np.int64(x)

def _default_corrcoef(x, y):
    # contract stub: a symmetric 2x2 matrix with unit diagonal and an unknown coefficient in [-1, 1]
    r = E().fresh('corrcoef', 'R', lo=-1, hi=1)
    return S(np.array([[1, r], [r, 1]], dtype=object), 'f')
CORRCOEF = [_default_corrcoef]

def _sa(x): return x if _scalar_like(x) else (x if isinstance(x, SymArray) else S(x))
def _scalar_like(x): return isinstance(x, SYMTYPES + (bool, int, float, Fraction, np.number, np.bool_))
def _shape(shape):
    if isinstance(shape, (tuple, list)): return tuple(_ci(s) for s in shape)
    return _ci(shape)

# ------------------------------------------------------------------ helpers for harnesses
def sym_matrix(n, name, sort='R', symmetric=False, support=None, lo=None, hi=None, nonzero=True, diag=False, dk=None, lo_open=False):
    e = E(); M = np.zeros((n, n), dtype=object)
    for i in range(n):
        for j in range(n):
            M[i, j] = Z(0)
            if i == j and not diag: continue
            if symmetric and j < i: M[i, j] = M[j, i]; continue
            if support is not None and not support[i][j]: continue
            M[i, j] = e.fresh('%s_%d_%d' % (name, i, j), sort, lo=lo, hi=hi, nonzero=nonzero, lo_open=lo_open)
    return S(M, dk or {'R': 'f', 'I': 'i', 'B': 'b'}[sort])
