"""Scalar layer: operations over python numbers, +/-inf/nan floats, IR terms and extended values.

Value kinds
  bool | Z(int) | Fraction      exact concrete numbers
  float                         only +inf, -inf, nan (finite floats are converted to exact numbers)
  T                             IR term of sort B / I / R
  Ext(fin, inf)                 "fin unless the Bool term `inf` holds, then +inf"  (symbolic infinity flag)
"""
import math, operator
from fractions import Fraction
import numpy as np
from . import ir
from .ir import T, Unsupported, norm_num, Z

INF = float('inf')

def isinf(x): return isinstance(x, float) and math.isinf(x)
def isnan(x): return isinstance(x, float) and math.isnan(x)

def E():
    from .engine import Engine
    return Engine.cur

class Ext:
    __slots__ = ('fin', 'inf')
    def __init__(self, fin, inf): self.fin = fin; self.inf = inf
    def __repr__(self): return 'Ext(%r | inf if %r)' % (self.fin, self.inf)
    # python operators delegate to the scalar functions below
    def __add__(s, o): return NotImplemented if isinstance(o, np.ndarray) else add(s, o)
    def __radd__(s, o): return add(o, s)
    def __sub__(s, o): return NotImplemented if isinstance(o, np.ndarray) else sub(s, o)
    def __rsub__(s, o): return sub(o, s)
    def __mul__(s, o): return NotImplemented if isinstance(o, np.ndarray) else mul(s, o)
    def __rmul__(s, o): return mul(o, s)
    def __truediv__(s, o): return NotImplemented if isinstance(o, np.ndarray) else div(s, o)
    def __rtruediv__(s, o): return div(o, s)
    def __lt__(s, o): return NotImplemented if isinstance(o, np.ndarray) else lt(s, o)
    def __le__(s, o): return NotImplemented if isinstance(o, np.ndarray) else le(s, o)
    def __gt__(s, o): return NotImplemented if isinstance(o, np.ndarray) else lt(o, s)
    def __ge__(s, o): return NotImplemented if isinstance(o, np.ndarray) else le(o, s)
    def __eq__(s, o): return NotImplemented if isinstance(o, np.ndarray) else eq(s, o)
    def __ne__(s, o): return NotImplemented if isinstance(o, np.ndarray) else ne(s, o)
    __hash__ = None
    def __bool__(s): return E().branch(truth(s))
    def __abs__(s): return mkext(ir.sabs(s.fin), s.inf)
    def __float__(s): raise Unsupported('float() of extended symbolic value')
    def __array_ufunc__(self, ufunc, method, *inputs, **kw):
        return scalar_ufunc(ufunc, method, inputs, kw)

def mkext(fin, inf):
    if inf is True: return INF
    if inf is False: return fin
    return Ext(fin, inf)

def parts(x):
    """(fin, inf) view of a value that is finite, +inf or Ext; raises for -inf/nan"""
    if isinstance(x, Ext): return x.fin, x.inf
    if isinstance(x, float):
        if x == INF: return 0, True
        raise Unsupported('-inf/nan in extended arithmetic')
    return x, False

def special(*xs): return any(isinstance(x, (float, Ext)) for x in xs)

def n_(x):
    """normalise an incoming python/numpy scalar"""
    if isinstance(x, (T, Ext)): return x
    return norm_num(x)

# ---------------------------------------------------------------- arithmetic
def add(a, b):
    a, b = n_(a), n_(b)
    if not special(a, b): return ir.add(a, b)
    if isnan(a) or isnan(b): return float('nan')
    for x, y in ((a, b), (b, a)):
        if isinstance(x, float) and x == -INF:
            if isinstance(y, (float, Ext)):
                if isinstance(y, float) and y == -INF: return -INF
                if isinstance(y, float): return float('nan')
                raise Unsupported('-inf + ext')
            return -INF
    (fa, ia), (fb, ib) = parts(a), parts(b)
    return mkext(ir.add(fa, fb), ir.lor(ia, ib))

def neg(a):
    a = n_(a)
    if isinstance(a, float): return -a
    if isinstance(a, Ext): raise Unsupported('negation of extended value')
    return ir.neg(a)

def sub(a, b):
    a, b = n_(a), n_(b)
    if not special(a, b): return ir.sub(a, b)
    if isinstance(b, Ext): raise Unsupported('x - ext')
    if isinstance(b, float): return add(a, -b) if not isinstance(a, Ext) else _ext_minus_float(a, b)
    # b finite, a special
    if isinstance(a, float): return a
    return mkext(ir.sub(a.fin, b), a.inf)

def _ext_minus_float(a, b):
    if isnan(b): return b
    if b == -INF: return INF
    raise Unsupported('ext - inf')

def mul(a, b):
    a, b = n_(a), n_(b)
    if not special(a, b):
        if isinstance(a, bool) and isinstance(b, bool): return a and b
        return ir.mul(a, b)
    if isnan(a) or isnan(b): return float('nan')
    if isinstance(a, float) and isinstance(b, float): return a * b
    for x, y in ((a, b), (b, a)):
        if isinstance(y, (float, Ext)) and not isinstance(x, (float, Ext)):
            # finite x times (possibly) infinite y
            if isinstance(x, T):
                x = ir.num(x)
                if isinstance(y, float):
                    if bool(ir.gt(x, 0)): return y
                    if bool(ir.lt(x, 0)): return -y
                    return float('nan')
                raise Unsupported('symbolic * ext')
            x = ir.num(x)
            if isinstance(y, float):
                return float('nan') if x == 0 else (y if x > 0 else -y)
            if x > 0: return mkext(ir.mul(x, y.fin), y.inf)
            if x == 0:
                if bool(y.inf): return float('nan')
                return 0
            raise Unsupported('negative * ext')
    # both possibly infinite: inf * x needs x > 0 (or x infinite too)
    (fa, ia), (fb, ib) = parts(a), parts(b)
    bad = ir.lor(ir.land(ia, ir.lnot(ib), ir.le(fb, 0)), ir.land(ib, ir.lnot(ia), ir.le(fa, 0)))
    if bool(bad): raise Unsupported('inf * non-positive value')
    return mkext(ir.mul(fa, fb), ir.lor(ia, ib))

def _nonzero_here(b, guard=True):
    """decide (forking if necessary) whether symbolic divisor b is non-zero on this path; `guard` is the case of an
    enclosing ite in which the quotient is used (b == 0 outside that case is irrelevant)"""
    e = E()
    if e is None: return True
    if b.id in e.nonzero or ir.is_pos(b) or ir.is_neg(b): return True
    if guard is not True:
        import z3
        if e.check(ir.land(guard, ir.eq(b, 0))) == z3.unsat: return True
    z = e.branch(ir.eq(b, 0), tag='div0')
    if not z: e.nonzero.add(b.id)
    return not z

def div(a, b, guard=True):
    a, b = n_(a), n_(b)
    if isnan(a) or isnan(b): return float('nan')
    if isinstance(b, Ext):
        if isinstance(a, (float, Ext)): raise Unsupported('ext / ext')
        return ir.ite(b.inf, 0, div(a, b.fin)) if not isinstance(div(a, b.fin), (float, Ext)) else _fork_ite(b.inf, 0, div(a, b.fin))
    if isinstance(b, float):        # +-inf
        if isinstance(a, float): return float('nan')
        if isinstance(a, Ext):
            if bool(a.inf): return float('nan')
            return 0
        return 0
    if isinstance(b, T):
        b = ir.num(b)
        if b.op == 'ite' and (ir._leafy(b) or ir._nleaves(b) <= 40):
            import z3
            e = E()
            whole_nonzero = ir.is_pos(b) or (e is not None and (b.id in e.nonzero or e.check(ir.land(guard, ir.eq(b, 0))) == z3.unsat))
            if whole_nonzero and not isinstance(a, (float, Ext)):
                if e is not None: e.nonzero.add(b.id)
                return ir.div(a, b)              # distributes syntactically; zero leaves belong to cases that are not taken
            c = b.args[0]
            return ite(c, div(a, b.args[1], ir.land(guard, c)), div(a, b.args[2], ir.land(guard, ir.lnot(c))))
        if not _nonzero_here(b, guard):
            return _div_zero(a)
        if isinstance(a, float): 
            return a if bool(ir.gt(b, 0)) else -a
        if isinstance(a, Ext):
            if bool(ir.gt(b, 0)): return mkext(ir.div(a.fin, b), a.inf)
            raise Unsupported('ext / negative')
        return ir.div(a, b)
    b = ir.num(b)
    if b == 0: return _div_zero(a)
    if isinstance(a, float): return a if b > 0 else -a
    if isinstance(a, Ext):
        if b > 0: return mkext(ir.div(a.fin, b), a.inf)
        raise Unsupported('ext / negative')
    return ir.div(a, b)

def _div_zero(a):
    if isinstance(a, Ext):
        a = INF if bool(a.inf) else a.fin
    if isinstance(a, float): return a
    if isinstance(a, T):
        a = ir.num(a)
        if bool(ir.gt(a, 0)): return INF
        if bool(ir.lt(a, 0)): return -INF
        return float('nan')
    a = ir.num(a)
    return float('nan') if a == 0 else (INF if a > 0 else -INF)

def _fork_ite(c, a, b):
    return a if bool(c) else b

def ite(c, a, b):
    c = ir.truth(c) if not isinstance(c, Ext) else truth(c)
    if not isinstance(c, T): return a if c else b
    a, b = n_(a), n_(b)
    if not special(a, b): return ir.ite(c, a, b)
    if a is b: return a
    if isinstance(a, float) and isinstance(b, float) and (a == b or (isnan(a) and isnan(b))): return a
    try:
        (fa, ia), (fb, ib) = parts(a), parts(b)
    except Unsupported:
        return _fork_ite(c, a, b)
    fa, fb = ir.num(fa), ir.num(fb)
    return mkext(ir.ite(c, fa, fb), ir.ite(c, ia, ib))

# ---------------------------------------------------------------- comparisons
def _cmp(a, b, irf, pyf, kind):
    a, b = n_(a), n_(b)
    if not special(a, b): return irf(a, b)
    if isnan(a) or isnan(b): return kind == 'ne'
    if isinstance(a, float) and isinstance(b, float): return bool(pyf(a, b))
    for x in (a, b):
        if isinstance(x, float) and x == -INF:
            other = b if x is a else a
            if isinstance(other, float): return bool(pyf(a, b))
            # -inf against finite/Ext
            if kind == 'eq': return False
            if kind == 'ne': return True
            return (kind in ('lt', 'le')) if x is a else False
    (fa, ia), (fb, ib) = parts(a), parts(b)
    nia, nib = ir.lnot(ia), ir.lnot(ib)
    if kind == 'lt': return ir.land(nia, ir.lor(ib, ir.lt(fa, fb)))
    if kind == 'le': return ir.lor(ib, ir.land(nia, ir.le(fa, fb)))
    if kind == 'eq': return ir.lor(ir.land(ia, ib), ir.land(nia, nib, ir.eq(fa, fb)))
    if kind == 'ne': return ir.lnot(ir.lor(ir.land(ia, ib), ir.land(nia, nib, ir.eq(fa, fb))))
    raise AssertionError(kind)

def lt(a, b): return _cmp(a, b, ir.lt, operator.lt, 'lt')
def le(a, b): return _cmp(a, b, ir.le, operator.le, 'le')
def gt(a, b): return lt(b, a)
def ge(a, b): return le(b, a)
def eq(a, b): return _cmp(a, b, ir.eq, operator.eq, 'eq')
def ne(a, b): return _cmp(a, b, ir.ne, operator.ne, 'ne')

def truth(x):
    if isinstance(x, Ext): return ir.lor(x.inf, ir.truth(x.fin))
    if isinstance(x, (np.bool_, np.number)): x = norm_num(x)
    return ir.truth(x)

def lnot(x): return ir.lnot(truth(x))
def land(*xs): return ir.land(*[truth(x) for x in xs])
def lor(*xs): return ir.lor(*[truth(x) for x in xs])

def smin(a, b):
    a, b = n_(a), n_(b)
    if not special(a, b): return ir.smin(a, b)
    if isnan(a) or isnan(b): return float('nan')
    if isinstance(a, float) and a == -INF or isinstance(b, float) and b == -INF: return -INF
    (fa, ia), (fb, ib) = parts(a), parts(b)
    return mkext(ir.ite(lt(a, b), ir.num(fa), ir.num(fb)), ir.land(ia, ib))
def smax(a, b):
    a, b = n_(a), n_(b)
    if not special(a, b): return ir.smax(a, b)
    if isnan(a) or isnan(b): return float('nan')
    if isinstance(a, float) and a == -INF: return b
    if isinstance(b, float) and b == -INF: return a
    (fa, ia), (fb, ib) = parts(a), parts(b)
    return mkext(ir.ite(lt(a, b), ir.num(fb), ir.num(fa)), ir.lor(ia, ib))
def sabs(a):
    a = n_(a)
    if isinstance(a, float): return abs(a)
    if isinstance(a, Ext): return mkext(ir.sabs(a.fin), a.inf)
    return ir.sabs(a)
def ssign(a):
    a = n_(a)
    if isinstance(a, float): return a if isnan(a) else (1 if a > 0 else -1)
    if isinstance(a, Ext): return ir.ite(a.inf, 1, ir.ssign(a.fin))
    return ir.ssign(a)
def s_isinf(a):
    if isinstance(a, Ext): return a.inf
    return isinf(a)
def s_isnan(a): return isnan(a)
def s_isfinite(a):
    if isinstance(a, Ext): return ir.lnot(a.inf)
    return not isinstance(a, float)

def power(a, b):
    a, b = n_(a), n_(b)
    if isinstance(b, (T, Ext)): raise Unsupported('symbolic exponent')
    if isinstance(a, Ext): raise Unsupported('ext ** x')
    if isinstance(b, float): raise Unsupported('x ** inf')
    if isinstance(a, float):
        if isnan(a): return a
        if b == 0: return 1
        if b > 0: return a if (a > 0 or (isinstance(b, int) and b % 2 == 1)) else -a
        return 0
    if isinstance(b, int) and not isinstance(b, bool):
        if b == 0: return 1
        if b < 0: return div(1, power(a, -b))
        if b == 3 and isinstance(a, T): return ir.cube(a)
        r = a
        for _ in range(b - 1): r = mul(r, a)
        return r
    fb = float(b)
    if abs(fb - 1 / 3) < 1e-15: return ir.atom('cbrt', a)
    if fb == 0.5: return ir.atom('sqrt', a)
    if fb == -0.5: return div(1, ir.atom('sqrt', a))
    if isinstance(a, T): raise Unsupported('pow %r' % (b,))
    return norm_num(float(a) ** fb)

def floor(a):
    a = n_(a)
    if isinstance(a, (float, Ext)): return a
    return ir.floor(a)
def ceil(a):
    a = n_(a)
    if isinstance(a, (float, Ext)): return a
    return ir.neg(ir.floor(ir.neg(a)))
def rint(a):
    """numpy round-half-even on concrete values; symbolic: floor(x+1/2) is only right off the .5 boundary -> fork"""
    a = n_(a)
    if isinstance(a, (float, Ext)): return a
    if not isinstance(a, T): return norm_num(round(a)) if not isinstance(a, (bool, int)) else a
    if a.sort != 'R': return a
    f = ir.floor(a); d = ir.sub(a, f)
    half = ir.eq(d, Fraction(1, 2))
    up = ir.gt(d, Fraction(1, 2))
    even = ir.eq(ir.mod(f, 2), 0)
    return ir.ite(half, ir.ite(even, f, ir.add(f, 1)), ir.ite(up, ir.add(f, 1), f))
def mod(a, b):
    a, b = n_(a), n_(b)
    if special(a, b): raise Unsupported('mod of extended value')
    return ir.mod(a, b)
def idiv(a, b):
    a, b = n_(a), n_(b)
    if special(a, b): raise Unsupported('floordiv of extended value')
    if not isinstance(a, T) and not isinstance(b, T): return norm_num(a // b)
    if ir.sort_of(a) == 'I' and isinstance(b, int): return ir.idiv(a, b)
    return ir.floor(div(a, b))
def atom(name):
    def f(a):
        a = n_(a)
        if isinstance(a, Ext): raise Unsupported(name + ' of extended value')
        if isinstance(a, float):
            if isnan(a): return a
            if name in ('sqrt', 'log', 'exp', 'cbrt') and a > 0: return a
            if name == 'exp': return 0
            return float('nan')
        if not isinstance(a, T):
            a = ir.num(a)
            if name == 'log' and a == 0: return -INF
            if name in ('log', 'sqrt') and a < 0: return float('nan')
        return ir.atom(name, a)
    return f

# ---------------------------------------------------------------- evaluation under a model
def evaluate(x, env, memo=None):
    if isinstance(x, Ext):
        return INF if ir.evaluate(x.inf, env, memo) else ir.evaluate(x.fin, env, memo)
    return ir.evaluate(x, env, memo)

# ---------------------------------------------------------------- symbolic scalar class (operator overloads on terms)
def _arr(o): return isinstance(o, np.ndarray)

class Sym(T):
    __slots__ = ()
    def __add__(s, o): return NotImplemented if _arr(o) else add(s, o)
    def __radd__(s, o): return add(o, s)
    def __sub__(s, o): return NotImplemented if _arr(o) else sub(s, o)
    def __rsub__(s, o): return sub(o, s)
    def __mul__(s, o): return NotImplemented if _arr(o) else mul(s, o)
    def __rmul__(s, o): return mul(o, s)
    def __truediv__(s, o): return NotImplemented if _arr(o) else div(s, o)
    def __rtruediv__(s, o): return div(o, s)
    def __floordiv__(s, o): return NotImplemented if _arr(o) else idiv(s, o)
    def __rfloordiv__(s, o): return idiv(o, s)
    def __mod__(s, o): return NotImplemented if _arr(o) else mod(s, o)
    def __rmod__(s, o): return mod(o, s)
    def __neg__(s): return neg(s)
    def __pos__(s): return s
    def __abs__(s): return sabs(s)
    def __pow__(s, o): return NotImplemented if _arr(o) else power(s, o)
    def __rpow__(s, o): return power(o, s)
    def __lt__(s, o): return NotImplemented if _arr(o) else lt(s, o)
    def __le__(s, o): return NotImplemented if _arr(o) else le(s, o)
    def __gt__(s, o): return NotImplemented if _arr(o) else lt(o, s)
    def __ge__(s, o): return NotImplemented if _arr(o) else le(o, s)
    def __eq__(s, o):
        if _arr(o): return NotImplemented
        if o is None or isinstance(o, (str, tuple, list, dict, type(np))): return False
        return eq(s, o)
    def __ne__(s, o):
        if _arr(o): return NotImplemented
        if o is None or isinstance(o, (str, tuple, list, dict, type(np))): return True
        return ne(s, o)
    def __invert__(s): return ir.lnot(s)
    def __and__(s, o): return NotImplemented if _arr(o) else land(s, o)
    __rand__ = __and__
    def __or__(s, o): return NotImplemented if _arr(o) else lor(s, o)
    __ror__ = __or__
    def __xor__(s, o): return NotImplemented if _arr(o) else ir.ne(ir.truth(s), truth(o)) if s.sort == 'B' else NotImplemented
    def __bool__(s): return E().branch(s)
    def __index__(s):
        if s.sort == 'B': return int(E().branch(s))
        if s.sort == 'R': raise TypeError("'numpy.float64' object cannot be interpreted as an integer")
        return E().concretize(s)
    def __int__(s):
        if s.sort == 'B': return int(E().branch(s))
        if s.sort == 'R': return E().concretize(trunc(s))
        return E().concretize(s)
    def __hash__(s): return hash(E().concretize(s)) if s.sort == 'I' else id(s)
    def __float__(s):
        if s.sort == 'I': return float(E().concretize(s))
        raise Unsupported('float() of symbolic real')
    def __round__(s, nd=None): return rint(s)
    def __array_ufunc__(self, ufunc, method, *inputs, **kw):
        return scalar_ufunc(ufunc, method, inputs, kw)
    def astype(s, t): 
        if t in (int, np.int64, np.int32, 'int'): return trunc(s)
        return s
    @property
    def real(s): return s
    @property
    def imag(s): return 0

def trunc(a):
    a = n_(a)
    if isinstance(a, (float, Ext)): raise OverflowError('cannot convert float infinity to integer')
    if not isinstance(a, T): return Z(int(a))
    if a.sort != 'R': return ir.num(a)
    return ir.ite(ir.ge(a, 0), ir.floor(a), ir.neg(ir.floor(ir.neg(a))))

ir._CLS[0] = Sym

def box(x):
    a = np.empty((), dtype=object); a[()] = x; return a

def scalar_ufunc(ufunc, method, inputs, kw):
    from . import arr
    if any(_arr(x) for x in inputs) or method != '__call__' or kw.get('out') is not None:
        ins = [box(x).view(arr.SymArray) if isinstance(x, (T, Ext)) else x for x in inputs]
        return arr.SymArray.__array_ufunc__(arr.S(np.zeros(0, dtype=int)), ufunc, method, *ins, **kw)
    name = ufunc.__name__
    f = PYOPS.get(name)
    if f is None and '(vectorized)' in name:
        r = ufunc(*[box(x) if isinstance(x, (T, Ext)) else x for x in inputs], **kw)
        return r[()] if isinstance(r, np.ndarray) and r.shape == () else r
    if f is None: raise Unsupported('scalar ufunc ' + name)
    return f(*[n_(x) for x in inputs])

PYOPS = {
    'add': add, 'subtract': sub, 'multiply': mul, 'true_divide': div, 'divide': div,
    'negative': neg, 'positive': lambda a: a, 'absolute': sabs, 'fabs': sabs,
    'greater': gt, 'greater_equal': ge, 'less': lt, 'less_equal': le, 'equal': eq, 'not_equal': ne,
    'logical_not': lnot, 'logical_and': land, 'logical_or': lor,
    'logical_xor': lambda a, b: ir.ne(truth(a), truth(b)),
    'bitwise_and': land, 'bitwise_or': lor, 'invert': lnot,
    'maximum': smax, 'minimum': smin, 'fmax': smax, 'fmin': smin, 'sign': ssign,
    'remainder': mod, 'floor_divide': idiv, 'power': power,
    'isnan': s_isnan, 'isinf': s_isinf, 'isfinite': s_isfinite,
    'sqrt': atom('sqrt'), 'log': atom('log'), 'exp': atom('exp'), 'cbrt': atom('cbrt'),
    'log2': lambda a: div(atom('log')(a), atom('log')(2)),
    'square': lambda a: mul(a, a), 'floor': floor, 'ceil': ceil, 'rint': rint, 'trunc': trunc,
    'conjugate': lambda a: a,
}
