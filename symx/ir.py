"""Hash-consed term IR for symx.

Sorts: 'B' bool, 'I' int, 'R' real.  Terms are immutable, interned; Python numbers are kept
as Python numbers (bool/int/Fraction) and never wrapped, so constant folding is plain Python.
"""
from fractions import Fraction
import math, operator

class Unsupported(BaseException):
    pass

class Z(int):
    """exact integer: arithmetic stays in Z, true division yields an exact Fraction (never a float)"""
    __slots__ = ()
    def _w(r): return Z(r) if isinstance(r, int) and not isinstance(r, bool) else r
    def __add__(s, o): r = int.__add__(s, o); return r if r is NotImplemented else Z(r)
    def __radd__(s, o): r = int.__radd__(s, o); return r if r is NotImplemented else Z(r)
    def __sub__(s, o): r = int.__sub__(s, o); return r if r is NotImplemented else Z(r)
    def __rsub__(s, o): r = int.__rsub__(s, o); return r if r is NotImplemented else Z(r)
    def __mul__(s, o): r = int.__mul__(s, o); return r if r is NotImplemented else Z(r)
    def __rmul__(s, o): r = int.__rmul__(s, o); return r if r is NotImplemented else Z(r)
    def __neg__(s): return Z(int.__neg__(s))
    def __truediv__(s, o):
        if isinstance(o, int):
            if o == 0: return float('nan') if s == 0 else math.copysign(float('inf'), s)
            return norm_num(Fraction(int(s), int(o)))
        return NotImplemented
    def __rtruediv__(s, o):
        if isinstance(o, int):
            if s == 0: return float('nan') if o == 0 else math.copysign(float('inf'), o)
            return norm_num(Fraction(int(o), int(s)))
        return NotImplemented

class ZF(Z):
    """an integer value read out of a float-typed array: arithmetic is exact, but numpy refuses it as an index"""
    __slots__ = ()
    def __index__(s): raise IndexError('only integers, slices (`:`), ellipsis (`...`), numpy.newaxis (`None`) and integer or boolean arrays are valid indices')

_TAB = {}
_NEXT = [0]

class T:
    __slots__ = ('op', 'args', 'sort', 'id', '__weakref__')
    # NOTE: operator overloads for T live in scalar.py (Sym mixin) to keep this file pure.
    def __init__(self, op, args, sort):
        self.op = op; self.args = args; self.sort = sort
        self.id = _NEXT[0]; _NEXT[0] += 1
    def __repr__(self):
        return show(self)

def _key(a):
    return ('#', a.id) if isinstance(a, T) else (type(a).__name__, a)

def mk(op, args, sort):
    k = (op, sort) + tuple(_key(a) for a in args)
    t = _TAB.get(k)
    if t is None:
        t = _TAB[k] = _CLS[0](op, tuple(args), sort)
    return t

_CLS = [T]   # scalar.py replaces with the operator-overloaded subclass

def reset():
    _TAB.clear()

# ---------------------------------------------------------------- helpers
def is_t(x): return isinstance(x, T)

def norm_num(x):
    """python/numpy scalar -> bool | int | Fraction | float(inf/nan)"""
    import numpy as np
    if isinstance(x, (bool, np.bool_)): return bool(x)
    if isinstance(x, (int, np.integer)): return Z(x)
    if isinstance(x, Fraction):
        return Z(x) if x.denominator == 1 else x
    if isinstance(x, (float, np.floating)):
        x = float(x)
        if math.isinf(x) or math.isnan(x): return x
        if x == int(x) and abs(x) < 2**53: return Z(int(x))
        return Fraction(x)
    return x

def sort_of(x):
    if isinstance(x, T): return x.sort
    if isinstance(x, bool): return 'B'
    if isinstance(x, int): return 'I'
    if isinstance(x, Fraction): return 'R'
    if isinstance(x, float): return 'R'
    raise Unsupported('sort_of %r' % type(x))

def var(name, sort):
    return mk('var', (name,), sort)

# numeric view of a bool
def num(x):
    if isinstance(x, T):
        if x.sort == 'B': return ite(x, 1, 0)
        return x
    if isinstance(x, bool): return int(x)
    return x

def _jsort(a, b):
    sa, sb = sort_of(a), sort_of(b)
    return 'R' if 'R' in (sa, sb) else 'I'

# ---------------------------------------------------------------- arithmetic
def add(a, b):
    a, b = num(a), num(b)
    if not is_t(a) and not is_t(b): return norm_num(a + b)
    # flatten: ('add', const, t1, t2, ...)
    c = 0; terms = []
    for x in (a, b):
        if is_t(x) and x.op == 'add':
            c = c + x.args[0]; terms.extend(x.args[1:])
        elif is_t(x): terms.append(x)
        else: c = c + x
    c = norm_num(c)
    if not terms: return c
    srt = 'R' if (any(t.sort == 'R' for t in terms) or isinstance(c, Fraction)) else 'I'
    terms.sort(key=lambda t: t.id)          # canonical order: equal sums are the same node
    if len(terms) == 1 and c == 0 and terms[0].sort == srt: return terms[0]
    if len(terms) == 1 and terms[0].op == 'ite' and not is_t(terms[0].args[1]) and not is_t(terms[0].args[2]):
        t0 = terms[0]
        return ite(t0.args[0], norm_num(t0.args[1] + c), norm_num(t0.args[2] + c))
    return mk('add', [c] + terms, srt)

def neg(a): return mul(-1, a)
def sub(a, b): return add(a, neg(b))

def mul(a, b):
    a, b = num(a), num(b)
    if not is_t(a) and not is_t(b): return norm_num(a * b)
    if is_t(a) and not is_t(b): a, b = b, a
    if not is_t(a):            # const * term
        if a == 0: return 0
        if a == 1: return b
        if b.op == 'mul' and not is_t(b.args[0]):
            return mul(norm_num(a * b.args[0]), b.args[1])
        if b.op == 'add':       # distribute constants: keeps things linear & canonical
            r = norm_num(a * b.args[0])
            for t in b.args[1:]: r = add(r, mul(a, t))
            return r
        if b.op == 'ite' and not is_t(b.args[1]) and not is_t(b.args[2]):
            return ite(b.args[0], norm_num(a * b.args[1]), norm_num(a * b.args[2]))
        srt = 'R' if (isinstance(a, Fraction) or b.sort == 'R') else 'I'
        return mk('mul', [a, b], srt)
    # term * term : lift over guarded constants (ite trees with numeric leaves)
    for x, y in ((a, b), (b, a)):
        if x.op == 'ite' and _leafy(x):
            return ite(x.args[0], mul(x.args[1], y), mul(x.args[2], y))
    if a.id > b.id: a, b = b, a
    return mk('mul', [a, b], _jsort(a, b))

def _leafy(t, depth=0):
    """ite tree whose leaves are numbers (bounded size)"""
    if not is_t(t): return True
    if t.op != 'ite' or depth > 12: return False
    return _leafy(t.args[1], depth + 1) and _leafy(t.args[2], depth + 1)

def div(a, b):
    a, b = num(a), num(b)
    if is_t(a) and a is b: return 1          # callers establish b != 0 first (sc.div)
    if not is_t(b):
        if isinstance(b, float):
            if math.isinf(b): return 0
            raise Unsupported('div by nan')
        if b == 0: raise ZeroDivisionError('symx: division by concrete zero')
        return mul(Fraction(1, 1) / Fraction(b), a) if is_t(a) else norm_num(Fraction(a) / Fraction(b))
    if is_t(b) and b.op == 'ite' and _nleaves(b) <= 40:
        # division by a case split (max/abs chains): divide inside each case, so every quotient has a plain divisor.
        # The caller has established b != 0 on this path, so a zero leaf sits in a case that is not taken: any value will do.
        return ite(b.args[0], _div_leaf(a, b.args[1]), _div_leaf(a, b.args[2]))
    if is_t(b) and b.op == 'mul' and not is_t(b.args[0]):
        return div(div(a, b.args[0]), b.args[1])
    return mk('rdiv', [a, b], 'R')

def _div_leaf(a, x):
    if not is_t(x) and x == 0: return 0
    return div(a, x)

def _nonzero_leaves(t):
    if not is_t(t): return t != 0
    if t.op != 'ite': return True
    return _nonzero_leaves(t.args[1]) and _nonzero_leaves(t.args[2])

def _nleaves(t, lim=41):
    if not is_t(t) or t.op != 'ite': return 1
    n = _nleaves(t.args[1], lim)
    if n >= lim: return n
    return n + _nleaves(t.args[2], lim - n)

def atom(name, x):
    """uninterpreted real function of one real argument; folds on numbers"""
    if not is_t(x):
        x = norm_num(x)
        if name == 'recip': return norm_num(Fraction(1) / Fraction(x))
        if name == 'cbrt':
            if x in (0, 1, -1): return x
            v = abs(float(x)) ** (1 / 3)
            r = round(v)
            if r ** 3 == abs(x): return r if x > 0 else -r
            return norm_num(math.copysign(v, x))
        if name == 'sqrt':
            r = math.isqrt(x) if isinstance(x, int) and x >= 0 else None
            if r is not None and r * r == x: return r
            return norm_num(math.sqrt(x))
        if name == 'log': return norm_num(math.log(x))
        if name == 'exp': return norm_num(math.exp(x))
        raise Unsupported(name)
    if x.op == 'ite':
        return ite(x.args[0], atom(name, x.args[1]), atom(name, x.args[2]))
    if name == 'cbrt' and x.op == 'cube': return x.args[0]
    return mk(name, [x], 'R')

def cube(x):
    if not is_t(x): return norm_num(x * x * x)
    return mk('cube', [x], x.sort)

def floor(a):
    if not is_t(a): return math.floor(a)
    if a.sort == 'I': return a
    return mk('floor', [a], 'I')

def mod(a, b):
    if not is_t(a) and not is_t(b): return norm_num(a % b)
    if is_t(b): raise Unsupported('mod by symbolic')
    if sort_of(a) == 'I' and isinstance(b, int): return mk('mod', [a, b], 'I')
    return sub(a, mul(b, floor(div(a, b))))        # real mod

def idiv(a, b):
    if not is_t(a) and not is_t(b): return a // b
    if is_t(b) or not isinstance(b, int) or sort_of(a) != 'I': raise Unsupported('idiv')
    return mk('idiv', [a, b], 'I')

# ---------------------------------------------------------------- comparisons / logic
def _cmp(op, pyop, a, b):
    a, b = num(a), num(b)
    if not is_t(a) and not is_t(b): return bool(pyop(a, b))
    for x in (a, b):
        if isinstance(x, float):
            raise Unsupported('comparison with inf/nan must be handled by ext layer')
    d = sub(a, b)              # normalise to  d <op> 0
    return _cmp0(op, pyop, d)

KNOWN_POS = set()      # ids of variables assumed > 0 on the current path (reset by the engine at every path start)

def is_pos(t, depth=0):
    """syntactic proof that t > 0 from the declared positivity of variables"""
    if not is_t(t): return (not isinstance(t, float)) and t > 0
    if depth > 6: return False
    if t.op == 'var': return t.id in KNOWN_POS
    if t.op == 'cube': return is_pos(t.args[0], depth + 1)
    if t.op == 'mul':
        a, b = t.args
        if not is_t(a): return a > 0 and is_pos(b, depth + 1)
        return is_pos(a, depth + 1) and is_pos(b, depth + 1)
    if t.op == 'add':
        return t.args[0] >= 0 and all(is_pos(a, depth + 1) for a in t.args[1:])
    if t.op == 'rdiv': return is_pos(t.args[0], depth + 1) and is_pos(t.args[1], depth + 1)
    if t.op in ('cbrt', 'sqrt'): return is_pos(t.args[0], depth + 1)
    return False

def is_neg(t):
    if not is_t(t): return (not isinstance(t, float)) and t < 0
    if t.op == 'mul' and not is_t(t.args[0]) and t.args[0] < 0: return is_pos(t.args[1])
    if t.op == 'add' and t.args[0] <= 0: return all(is_neg(a) for a in t.args[1:])
    return False

def _cmp0(op, pyop, d, depth=0):
    if not is_t(d): return bool(pyop(d, 0))
    if KNOWN_POS:
        if is_pos(d): return False                      # d < 0, d <= 0, d == 0 are all false
        if is_neg(d): return op in ('lt0', 'le0')
    if d.op == 'ite' and depth < 8 and _leafy(d):      # guarded constants: stay propositional
        return ite(d.args[0], _cmp0(op, pyop, d.args[1], depth + 1), _cmp0(op, pyop, d.args[2], depth + 1))
    return mk(op, [d], 'B')

def lt(a, b): return _cmp('lt0', operator.lt, a, b)
def le(a, b): return _cmp('le0', operator.le, a, b)
def gt(a, b): return lt(b, a)
def ge(a, b): return le(b, a)
def eq(a, b):
    if sort_of(a) == 'B' and sort_of(b) == 'B':
        if not is_t(a) and not is_t(b): return a == b
        if not is_t(a): return b if a else lnot(b)
        if not is_t(b): return a if b else lnot(a)
        if a is b: return True
        return mk('iff', sorted([a, b], key=lambda t: t.id), 'B')
    return _cmp('eq0', operator.eq, a, b)
def ne(a, b): return lnot(eq(a, b))

def truth(x):
    """python-truthiness of a value as Bool term/bool"""
    if isinstance(x, T):
        return x if x.sort == 'B' else ne(x, 0)
    if isinstance(x, float) and math.isnan(x): return True
    return bool(x)

def lnot(a):
    a = truth(a)
    if not is_t(a): return not a
    if a.op == 'not': return a.args[0]
    return mk('not', [a], 'B')

def _nary(op, unit, xs):
    out = []; seen = set()
    for x in xs:
        x = truth(x)
        if not is_t(x):
            if x == unit: continue
            return not unit
        if x.op == op:
            for y in x.args:
                if y.id not in seen: seen.add(y.id); out.append(y)
        elif x.id not in seen:
            seen.add(x.id); out.append(x)
    for y in out:
        if y.op == 'not' and y.args[0].id in seen: return not unit
    if not out: return unit
    if len(out) == 1: return out[0]
    return mk(op, sorted(out, key=lambda t: t.id), 'B')

def land(*xs): return _nary('and', True, xs)
def lor(*xs): return _nary('or', False, xs)

def ite(c, a, b):
    c = truth(c)
    if not is_t(c): return a if c else b
    if isinstance(a, float) or isinstance(b, float):
        raise Unsupported('ite over inf/nan must be handled by ext layer')
    sa, sb = sort_of(a), sort_of(b)
    if sa == 'B' and sb == 'B':
        if not is_t(a) and not is_t(b):
            if a == b: return a
            return c if a else lnot(c)
        return lor(land(c, a), land(lnot(c), b))
    a, b = num(a), num(b)
    if a is b or (not is_t(a) and not is_t(b) and a == b): return a
    if c.op == 'not': c, a, b = c.args[0], b, a
    return mk('ite', [c, a, b], _jsort(a, b))

def smin(a, b):
    if not is_t(a) and not is_t(b): return min(a, b)
    return ite(le(a, b), a, b)
def smax(a, b):
    if not is_t(a) and not is_t(b): return max(a, b)
    return ite(ge(a, b), a, b)
def sabs(a):
    if not is_t(a): return abs(a)
    return ite(ge(a, 0), a, neg(a))
def ssign(a):
    if not is_t(a): return (a > 0) - (a < 0)
    return ite(gt(a, 0), 1, ite(lt(a, 0), -1, 0))

# ---------------------------------------------------------------- printing
def show(t, depth=4):
    if not isinstance(t, T): return repr(t)
    if t.op == 'var': return t.args[0]
    if depth == 0: return '…'
    return '(%s %s)' % (t.op, ' '.join(show(a, depth - 1) for a in t.args))

# ---------------------------------------------------------------- evaluation under a model
def evaluate(t, env, memo=None):
    """env: var name -> python value.  Returns python value (bool/int/Fraction)."""
    if not isinstance(t, T): return t
    if memo is None: memo = {}
    stack = [t]
    while stack:
        x = stack[-1]
        if x.id in memo: stack.pop(); continue
        todo = [a for a in x.args if isinstance(a, T) and a.id not in memo]
        if todo: stack.extend(todo); continue
        stack.pop()
        v = [memo[a.id] if isinstance(a, T) else a for a in x.args]
        op = x.op
        if op == 'var': r = env[x.args[0]]
        elif op == 'add': r = sum(v[1:], v[0])
        elif op == 'mul': r = v[0] * v[1]
        elif op == 'ite': r = v[1] if v[0] else v[2]
        elif op == 'lt0': r = v[0] < 0
        elif op == 'le0': r = v[0] <= 0
        elif op == 'eq0': r = v[0] == 0
        elif op == 'iff': r = v[0] == v[1]
        elif op == 'not': r = not v[0]
        elif op == 'and': r = all(v)
        elif op == 'or': r = any(v)
        elif op == 'rdiv':
            # a zero divisor only occurs in a branch the model does not take: poison it
            r = float('nan') if (v[1] == 0 or isinstance(v[1], float) or isinstance(v[0], float)) else Fraction(v[0]) / Fraction(v[1])
        elif op == 'mod': r = v[0] % v[1]
        elif op == 'idiv': r = v[0] // v[1]
        elif op == 'floor': r = math.floor(v[0])
        elif op == 'cube': r = v[0] ** 3
        elif op in ('recip', 'cbrt', 'sqrt', 'log', 'exp'):
            key = (op, v[0])
            r = env['__atoms__'].get(key) if '__atoms__' in env else None
            if r is None: r = atom(op, v[0])
        else: raise Unsupported('evaluate ' + op)
        try: memo[x.id] = norm_num(r) if not isinstance(r, bool) else r
        except (TypeError, ValueError): memo[x.id] = float('nan')
    return memo[t.id]


# ---------------------------------------------------------------- polynomial normal form (for identities the SMT solver need not see)
def poly(t, cap=20000):
    """{monomial (sorted tuple of var names) : Fraction} for a term built from + * cube, numbers and variables; else None"""
    memo = {}
    def go(x):
        if not isinstance(x, T):
            if isinstance(x, bool): x = int(x)
            if isinstance(x, (int, Fraction)): return {(): Fraction(x)} if x != 0 else {}
            return None
        if x.id in memo: return memo[x.id]
        r = None
        if x.op == 'var' and x.sort != 'B': r = {(x.args[0],): Fraction(1)}
        elif x.op == 'add':
            r = {}
            for a in x.args:
                p = go(a)
                if p is None: r = None; break
                for m, c in p.items():
                    v = r.get(m, 0) + c
                    if v == 0: r.pop(m, None)
                    else: r[m] = v
        elif x.op == 'mul':
            p, q = go(x.args[0]), go(x.args[1])
            r = _pmul(p, q, cap)
        elif x.op == 'cube':
            p = go(x.args[0]); r = _pmul(_pmul(p, p, cap), p, cap)
        elif x.op == 'rdiv' and not isinstance(x.args[1], T):
            p = go(x.args[0]); r = None if p is None else {m: c / Fraction(x.args[1]) for m, c in p.items()}
        memo[x.id] = r
        return r
    return go(t)

def _pmul(p, q, cap):
    if p is None or q is None or len(p) * len(q) > cap: return None
    r = {}
    for m1, c1 in p.items():
        for m2, c2 in q.items():
            m = tuple(sorted(m1 + m2)); v = r.get(m, 0) + c1 * c2
            if v == 0: r.pop(m, None)
            else: r[m] = v
    return r

def poly_equal(a, b):
    """True if both sides are polynomials with identical normal forms; None if undecided by normalisation"""
    p, q = poly(a), poly(b)
    if p is None or q is None: return None
    return True if p == q else None
