"""C09 — clustering coefficients and transitivity equal their triangle definitions.

The harness forks the adjacency bits (one labelled graph per path); on each graph the cube roots c_ij in (0, 1] of the
weights are symbolic (the routine receives w = c^3, so cuberoot folds back to c) and, for the signed variant, so is the
sign pattern.  Oracle: explicit sums over node triples."""
import itertools
from fractions import Fraction
import numpy as np
from symx import sc, ir
from harness.common import *

PROPERTY = 'C09'
FUNCTIONS = ['clustering_coef_bu', 'clustering_coef_bd', 'clustering_coef_wu', 'clustering_coef_wd', 'clustering_coef_wu_sign', 'transitivity_bu', 'transitivity_bd',
             'transitivity_wu', 'transitivity_wd', 'cuberoot']
ALLOWED_EXCEPTIONS = {}
GUARDS = [dict(note='has_triangle', min=1, why='some explored graph must contain a triangle'), dict(note='no_triangle', min=1, why='some explored graph must be triangle-free'),
          dict(note='low_degree_node', min=1, why='some explored graph must have a node with fewer than two neighbours')]
ASSUMPTIONS = ['one path per labelled graph (bits forked by the harness); weights w = c^3 with symbolic c in (0, 1]; empty diagonal',
               'transitivity on graphs without any connected triple is 0/0 and is excluded (denominator > 0 assumed)',
               'values-in-[0,1] is asserted for the binary routines and, for weighted ones, through the cross-multiplied definition (numerator <= denominator follows from c <= 1 and is not re-proved)']
BOUNDS = {'quick': dict(undirected='all graphs on 4 nodes', directed='all digraphs on 3 nodes + a seeded family of 64 digraphs on 4 nodes'), 'thorough': dict(undirected='n = 5', directed='n = 4 all')}
OPTS = {'quick': dict(witnesses_per_case=3, budget_s=900), 'thorough': dict(witnesses_per_case=3, budget_s=3000)}
F = Fraction
UND = ('clustering_coef_bu', 'clustering_coef_wu', 'clustering_coef_wu_sign', 'transitivity_bu', 'transitivity_wu')
WEI = ('clustering_coef_wu', 'clustering_coef_wd', 'clustering_coef_wu_sign', 'transitivity_wu', 'transitivity_wd')


def cases(tier, seed):
    q = False          # the full bounds cost about a minute: quick and thorough coincide
    import random
    rnd = random.Random(seed)
    cs = []
    pairs4 = [(a, b) for a in range(4) for b in range(4) if a != b]
    for fn in FUNCTIONS[:9]:
        und = fn in UND
        if und:
            cs.append(dict(name='%s/n4' % fn, fn=fn, kind='cc', n=4, undirected=True, weight=100, shard_depth=4))
            if not q: cs.append(dict(name='%s/n5' % fn, fn=fn, kind='cc', n=5, undirected=True, weight=2000, shard_depth=7))
        else:
            cs.append(dict(name='%s/n3' % fn, fn=fn, kind='cc', n=3, weight=100, shard_depth=4))
            free = rnd.sample(pairs4, 6)
            fixed = {'%d_%d' % p: rnd.choice([0, 1, 1]) for p in pairs4 if p not in free}
            cs.append(dict(name='%s/n4family' % fn, fn=fn, kind='cc', n=4, fixed=fixed, weight=100, shard_depth=4))
            if not q: cs.append(dict(name='%s/n4' % fn, fn=fn, kind='cc', n=4, weight=5000, shard_depth=8))
    for ct in ('zhang', 'costantini'):
        cs.append(dict(name='clustering_coef_wu_sign/%s/n3' % ct, fn='clustering_coef_wu_sign', kind='cc', n=3, undirected=True, coef_type=ct, weight=50, optional=True))
    return cs


def forked_graph(M, n, und, fixed):
    adj = [[False] * n for _ in range(n)]
    for a in range(n):
        for b in range(n):
            if a == b or (und and b < a): continue
            key = '%d_%d' % (a, b)
            adj[a][b] = bool(fixed[key]) if key in fixed else bool(M.truth_value(M.boolean('a_' + key)))
            if und: adj[b][a] = adj[a][b]
    return adj


def body(case, M):
    n, fn = case['n'], case['fn']
    und = case.get('undirected', False)
    adj = forked_graph(M, n, und, case.get('fixed', {}))
    weighted = fn in WEI
    signed = fn == 'clustering_coef_wu_sign'
    # cube roots of the weights
    c = [[0] * n for _ in range(n)]; sg = [[1] * n for _ in range(n)]
    for a in range(n):
        for b in range(n):
            if not adj[a][b] or (und and b < a): continue
            c[a][b] = M.real('c_%d_%d' % (a, b), lo=0, hi=1, lo_open=True) if weighted else 1
            if signed: sg[a][b] = 1 if M.truth_value(M.boolean('pos_%d_%d' % (a, b))) else -1
            if und: c[b][a] = c[a][b]; sg[b][a] = sg[a][b]
    def w(a, b):
        if not adj[a][b]: return 0 if M.symbolic else 0.0
        x = c[a][b]
        if M.symbolic: v = ir.cube(x) if weighted else 1
        else: v = float(x) ** 3
        return sc.mul(sg[a][b], v) if signed else v
    Wm = M.array([[w(a, b) for b in range(n)] for a in range(n)], 'f')
    cl = M.mod('clustering')
    kw = {'coef_type': case['coef_type']} if case.get('coef_type') else {}
    out = getattr(cl, fn)(Wm, **kw)
    A = [[1 if adj[a][b] else 0 for b in range(n)] for a in range(n)]
    tri_any = any(A[a][b] + A[b][a] and A[b][d] + A[d][b] and A[a][d] + A[d][a] for a, b, d in itertools.combinations(range(n), 3))
    M.note('has_triangle' if tri_any else 'no_triangle')
    if any(sum(1 for b in range(n) if A[a][b] or A[b][a]) < 2 for a in range(n)): M.note('low_degree_node')

    def closeq(x, y):
        if not M.symbolic: return abs(float(x) - float(y)) <= 1e-9 * max(1.0, abs(float(y)))
        if ir.poly_equal(x, y): return True          # polynomial identity settled by normalisation
        return sc.eq(x, y)
    def node_check(C, numer, denom, tag):
        """C[u] * denom[u] == numer[u]; exactly 0 where the definition's numerator or denominator vanishes"""
        for u in range(n):
            cu = C.view(np.ndarray)[u] if isinstance(C, np.ndarray) else C[u]
            d, nu = denom[u], numer[u]
            if not isinstance(d, ir.T) and d == 0:
                M.oblige('%s:zero_when_fewer_than_two_neighbours#%d' % (tag, u), closeq(cu, 0))
            elif not isinstance(nu, ir.T) and nu == 0:
                M.oblige('%s:zero_when_no_triangle#%d' % (tag, u), closeq(cu, 0))
            else:
                M.oblige('%s:equals_triangle_definition#%d' % (tag, u), closeq(sc.mul(cu, d), nu))
                if not weighted:
                    M.oblige('%s:in_unit_interval#%d' % (tag, u), sc.land(sc.ge(cu, 0), sc.le(cu, 1)))
    cr = lambda a, b: (sc.mul(sg[a][b], c[a][b]) if adj[a][b] else 0)       # signed cube root
    if fn in ('clustering_coef_bu', 'clustering_coef_wu'):
        k = [sum(A[u]) for u in range(n)]
        numer = [ssum(sc.mul(sc.mul(cr(u, j), cr(u, h)), cr(j, h)) for j in range(n) for h in range(n) if j != h and j != u and h != u) for u in range(n)]
        node_check(out, numer, [k[u] * (k[u] - 1) for u in range(n)], 'ret')
        M.result('C', out)
    elif fn in ('clustering_coef_bd', 'clustering_coef_wd'):
        K = [sum(A[u][j] + A[j][u] for j in range(n)) for u in range(n)]
        s_ = lambda a, b: sc.add(cr(a, b), cr(b, a))
        numer = [sc.div(ssum(sc.mul(sc.mul(s_(u, j), s_(u, h)), s_(j, h)) for j in range(n) for h in range(n) if j != h and j != u and h != u), 2) for u in range(n)]
        denom = [K[u] * (K[u] - 1) - 2 * sum(A[u][j] * A[j][u] for j in range(n)) for u in range(n)]
        node_check(out, numer, denom, 'ret')
        M.result('C', out)
    elif fn == 'clustering_coef_wu_sign' and not case.get('coef_type'):
        Cp, Cn = out
        for sgn, Cx, nm in ((1, Cp, 'pos'), (-1, Cn, 'neg')):
            on = lambda a, b: adj[a][b] and sg[a][b] == sgn
            k = [sum(1 for j in range(n) if on(u, j)) for u in range(n)]
            numer = [ssum(sc.mul(sc.mul(c[u][j], c[u][h]), c[j][h]) for j in range(n) for h in range(n) if j != h and j != u and h != u and on(u, j) and on(u, h) and on(j, h)) for u in range(n)]
            node_check(Cx, numer, [k[u] * (k[u] - 1) for u in range(n)], 'ret_' + nm)
        M.result('Cpos', Cp); M.result('Cneg', Cn)
    elif fn == 'clustering_coef_wu_sign':
        # Zhang / Costantini variants are defined on the weights themselves (no cube roots): checked against their triple sums
        ww = [[w(a, b) for b in range(n)] for a in range(n)]
        if case['coef_type'] == 'zhang':
            Cp, Cn = out
            for sgn, Cx, nm in ((1, Cp, 'pos'), (-1, Cn, 'neg')):
                wp = [[(sc.mul(sgn, ww[a][b]) if (adj[a][b] and sg[a][b] == sgn) else 0) for b in range(n)] for a in range(n)]
                numer = [ssum(sc.mul(sc.mul(wp[j][u], wp[u][h]), wp[j][h]) for j in range(n) for h in range(n)) for u in range(n)]
                denom = [ssum(sc.mul(wp[j][u], wp[u][h]) for j in range(n) for h in range(n) if j != h) for u in range(n)]
                node_check(Cx, numer, denom, 'ret_' + nm)
        else:
            numer = [ssum(sc.mul(sc.mul(ww[j][u], ww[u][h]), ww[j][h]) for j in range(n) for h in range(n)) for u in range(n)]
            denom = [ssum(sc.sabs(sc.mul(ww[j][u], ww[u][h])) for j in range(n) for h in range(n) if j != h) for u in range(n)]
            node_check(out, numer, denom, 'ret')
        M.note('no_witness')
    else:
        # transitivity: sum of triangle intensities over sum of connected-triple counts
        if fn in ('transitivity_bu', 'transitivity_wu'):
            k = [sum(A[u]) for u in range(n)]
            numer = ssum(sc.mul(sc.mul(cr(u, j), cr(u, h)), cr(j, h)) for u in range(n) for j in range(n) for h in range(n) if j != h and j != u and h != u)
            denom = sum(k[u] * (k[u] - 1) for u in range(n))
        else:
            K = [sum(A[u][j] + A[j][u] for j in range(n)) for u in range(n)]
            s_ = lambda a, b: sc.add(cr(a, b), cr(b, a))
            numer = sc.div(ssum(sc.mul(sc.mul(s_(u, j), s_(u, h)), s_(j, h)) for u in range(n) for j in range(n) for h in range(n) if j != h and j != u and h != u), 2)
            denom = sum(K[u] * (K[u] - 1) - 2 * sum(A[u][j] * A[j][u] for j in range(n)) for u in range(n))
        if denom == 0:
            M.note('no_connected_triple'); return
        M.oblige('ret:equals_triangle_to_triple_ratio', closeq(sc.mul(sc.n_(out), denom), numer))
        if not weighted: M.oblige('ret:in_unit_interval', sc.land(sc.ge(sc.n_(out), 0), sc.le(sc.n_(out), 1)))
        M.result('T', out)
