"""C03 — shortest-path distance matrices equal true minimum path lengths.

Binary routines: symbolic adjacency bits (every directed graph of the size in one exploration), oracle = Boolean
k-step reachability.  Weighted routines: every cell a symbolic length >= 0 (0 = absent, so the support is symbolic too
and ties are solver cases), oracle = minimum over all enumerated simple paths of the sum of the same length terms."""
import itertools
from fractions import Fraction
import numpy as np
from symx import sc
from harness.common import *

PROPERTY = 'C03'
FUNCTIONS = ['distance_bin', 'distance_wei', 'distance_wei_floyd', 'breadthdist', 'breadth', 'reachdist', 'charpath', 'efficiency_bin', 'efficiency_wei', 'rout_efficiency', 'binarize', 'invert']
ALLOWED_EXCEPTIONS = {}
GUARDS = [dict(note='disconnected', min=1, why='some explored graph must have an unreachable pair'), dict(note='connected', min=1, why='some explored graph must be strongly connected')]
ASSUMPTIONS = ['binary routines: all directed graphs with empty diagonal of the stated size (symbolic bits)',
               'weighted routines: each off-diagonal cell is a real length >= 0, 0 meaning "no connection" (support and ties symbolic); weights in (0, 1] for the log transform with -log modelled as an uninterpreted function constrained to be >= 0 (and 0 at weight 1)',
               'distance_wei / efficiency_wei explore one path per support and tie structure (the code forks on them)']
BOUNDS = {'quick': dict(binary='n <= 4 directed', weighted='n = 3 directed, n = 4 undirected'), 'thorough': dict(binary='n = 5', weighted='n = 4 directed')}
OPTS = {'quick': dict(witnesses_per_case=4, budget_s=900), 'thorough': dict(witnesses_per_case=4, budget_s=3000)}
F = Fraction


def cases(tier, seed):
    q = tier != 'thorough'
    cs = []
    def add(**k): cs.append(k)
    for n in ((3, 4) if q else (3, 4, 5)):
        add(name='distance_bin/n%d' % n, fn='distance_bin', kind='bin', n=n, weight=3 ** n)
        add(name='reachdist/n%d' % n, fn='reachdist', kind='bin', n=n, weight=3 ** n, shard_depth=6 if n >= 4 else None)
        if n <= 4:      # at n = 5 the mean-inverse-distance identity over symbolic bits is beyond z3 (unknown, measured)
            add(name='efficiency_bin/n%d' % n, fn='efficiency_bin', kind='bin', n=n, weight=3 ** n)
            add(name='charpath/n%d' % n, fn='charpath', kind='bin', n=n, weight=3 ** n, shard_depth=6 if n >= 4 else None)
    add(name='breadthdist/n3', fn='breadthdist', kind='bin', n=3, weight=60, shard_depth=4)
    add(name='breadthdist/n4und', fn='breadthdist', kind='bin', n=4, undirected=True, weight=60, shard_depth=4)
    if not q: add(name='breadthdist/n4', fn='breadthdist', kind='bin', n=4, weight=4000, shard_depth=8)
    for fn in ('distance_wei', 'distance_wei_floyd', 'efficiency_wei', 'rout_efficiency'):
        lazy = dict(lazy_where=True) if fn in ('distance_wei_floyd', 'rout_efficiency') else {}
        add(name='%s/n3dir' % fn, fn=fn, kind='wei', n=3, weight=300, shard_depth=6, cfg=lazy)
        if (fn == 'distance_wei' and q) or fn == 'efficiency_wei':     # efficiency_wei on the full 4-node family: z3 unknown on rare tie structures (measured)
            # Dijkstra forks on support and ties: the full 4-node family (38k paths) is thorough-tier; quick keeps the ring family
            add(name='%s/n4und_ring' % fn, fn=fn, kind='wei', n=4, undirected=True, absent=[[0, 2], [1, 3]], weight=600, shard_depth=6, cfg=lazy)
        else:
            add(name='%s/n4und' % fn, fn=fn, kind='wei', n=4, undirected=True, weight=600, shard_depth=6, cfg=lazy)
        if not q and fn != 'efficiency_wei': add(name='%s/n4dir' % fn, fn=fn, kind='wei', n=4, weight=6000, shard_depth=10, cfg=lazy)
    for tr in ('inv', 'log'):
        add(name='distance_wei_floyd/%s/n3dir' % tr, fn='distance_wei_floyd', kind='wei', n=3, transform=tr, weight=300, shard_depth=6, cfg=dict(lazy_where=True))
        if False:            # rout_efficiency with a transform: 1/min(sum of 1/w) resp. 1/min(sum of -log w) -- z3 answers unknown on some
                             # paths (measured, solver-version dependent); only the untransformed routine is claimed
            add(name='rout_efficiency/%s/n3dir' % tr, fn='rout_efficiency', kind='wei', n=3, transform=tr, weight=300, shard_depth=6, cfg=dict(lazy_where=True))
    return cs


def body(case, M):
    return {'bin': body_bin, 'wei': body_wei}[case['kind']](case, M)


# ------------------------------------------------------------------ oracles
def hop_oracle(bits, n):
    """exact[k][i][j] (k = 1..n-1): a shortest i->j path has exactly k edges; reach[i][j]"""
    R = [[bits[i][j] if i != j else False for j in range(n)] for i in range(n)]
    exact = {1: [row[:] for row in R]}
    for k in range(2, n):
        R2 = [[lor(R[i][j], *[land(R[i][m], bits[m][j]) for m in range(n) if m != i and m != j]) if i != j else False for j in range(n)] for i in range(n)]
        exact[k] = [[land(R2[i][j], lnot(R[i][j])) if i != j else False for j in range(n)] for i in range(n)]
        R = R2
    return exact, R


def simple_paths(n, i, j):
    others = [v for v in range(n) if v not in (i, j)]
    for r in range(len(others) + 1):
        for mid in itertools.permutations(others, r):
            yield (i,) + mid + (j,)


def wei_oracle(L, present, n):
    """d*[i][j] as an extended value (min over simple paths), and the list of (path length, hop count) per pair"""
    d = [[0] * n for _ in range(n)]; plist = [[[] for _ in range(n)] for _ in range(n)]
    for i in range(n):
        for j in range(n):
            if i == j: continue
            best = float('inf')
            for p in simple_paths(n, i, j):
                ok = land(*[present[p[t]][p[t + 1]] for t in range(len(p) - 1)])
                ln = ssum(L[p[t]][p[t + 1]] for t in range(len(p) - 1))
                pl = sc.ite(ok, ln, float('inf'))
                plist[i][j].append((pl, len(p) - 1))
                best = sc.smin(best, pl)
            d[i][j] = best
    return d, plist


def dist_eq(M, x, y):
    """equality of two extended distances (exact symbolically; tolerance on replay)"""
    if M.symbolic: return sc.eq(x, y)
    x, y = float(x), float(y)
    if x == y: return True
    if np.isinf(x) or np.isinf(y) or np.isnan(x) or np.isnan(y): return False
    return abs(x - y) <= 1e-9 * max(1.0, abs(x), abs(y))


# ------------------------------------------------------------------ binary routines
def sym_bits(M, n, undirected=False):
    bits = [[False] * n for _ in range(n)]
    for a in range(n):
        for b in range(n):
            if a == b: continue
            if undirected:
                if a < b: bits[a][b] = bits[b][a] = M.boolean('a_%d_%d' % (a, b))
            else: bits[a][b] = M.boolean('a_%d_%d' % (a, b))
    A = M.array([[(sc.ite(bits[a][b], 1, 0) if M.symbolic else float(bits[a][b])) if a != b else (0 if M.symbolic else 0.0) for b in range(n)] for a in range(n)], 'f')
    return bits, A


def body_bin(case, M):
    n, fn = case['n'], case['fn']
    bits, A = sym_bits(M, n, case.get('undirected', False))
    exact, reach = hop_oracle(bits, n)
    pairs = [(i, j) for i in range(n) for j in range(n) if i != j]
    def check_D(D, tag, diag0=True):
        for i, j in pairs:
            x = sc.n_(cell(D, i, j))
            for k in range(1, n):
                M.oblige('%s:distance_is_min_hops#%d_%d_k%d' % (tag, i, j, k), eq(sc.eq(x, k), exact[k][i][j]))
            M.oblige('%s:infinite_iff_unreachable#%d_%d' % (tag, i, j), eq(sc.s_isinf(x), lnot(reach[i][j])))
        if diag0:
            for i in range(n): M.oblige('%s:zero_diagonal#%d' % (tag, i), sc.eq(sc.n_(cell(D, i, i)), 0))
    def mean_inv():
        tot = 0
        for i, j in pairs:
            for k in range(1, n): tot = sc.add(tot, sc.ite(exact[k][i][j], F(1, k), 0))
        return sc.div(tot, n * n - n)
    if fn == 'distance_bin':
        D = M.mod('distance').distance_bin(A); check_D(D, 'ret'); M.result('D', D)
    elif fn == 'breadthdist':
        R, D = M.mod('distance').breadthdist(A); check_D(D, 'ret', diag0=False)
        for i, j in pairs: M.oblige('ret:reach_flag_iff_finite#%d_%d' % (i, j), eq(sc.truth(cell(R, i, j)), reach[i][j]))
        M.result('D', D)
    elif fn == 'reachdist':
        R, D = M.mod('distance').reachdist(A); check_D(D, 'ret', diag0=False)
        for i, j in pairs: M.oblige('ret:reach_flag_iff_finite#%d_%d' % (i, j), eq(sc.truth(cell(R, i, j)), reach[i][j]))
        M.result('D', D)
    elif fn == 'efficiency_bin':
        E = M.mod('efficiency').efficiency_bin(A)
        M.oblige('ret:global_efficiency_is_mean_inverse_distance', M.close(E, mean_inv(), tol=0 if M.symbolic else F(1, 10**9)))
        M.result('E', E)
    elif fn == 'charpath':
        D = M.mod('distance').distance_bin(A)
        lam, eff, ecc, radius, diameter = M.mod('distance').charpath(D)
        allreach = land(*[reach[i][j] for i, j in pairs])
        tot = 0
        for i, j in pairs:
            for k in range(1, n): tot = sc.add(tot, sc.ite(exact[k][i][j], k, 0))
        lam_ = sc.n_(lam)
        M.oblige('ret:lambda_is_mean_distance', sc.ite(allreach, dist_eq(M, lam_, sc.div(tot, n * n - n)), sc.s_isinf(lam_)) if M.symbolic else
                 (dist_eq(M, lam_, sc.div(tot, n * n - n)) if bool(allreach) else bool(sc.s_isinf(lam_))))
        M.oblige('ret:efficiency_is_mean_inverse_distance', M.close(eff, mean_inv(), tol=0 if M.symbolic else F(1, 10**9)))
        M.result('lambda', lam); M.result('efficiency', eff)
    if M.symbolic:
        M.note('connected' if M.truth_value(land(*[reach[i][j] for i, j in pairs])) else 'disconnected')


# ------------------------------------------------------------------ weighted routines
def body_wei(case, M):
    n, fn, tr = case['n'], case['fn'], case.get('transform')
    und = case.get('undirected', False)
    W = [[0] * n for _ in range(n)]
    for a in range(n):
        for b in range(n):
            if a == b or (und and b < a): continue
            if [a, b] in case.get('absent', []) or [b, a] in case.get('absent', []): continue
            hi = 1 if tr == 'log' else 8
            # rout_efficiency with the log transform: a weight of exactly 1 gives length -0.0 in IEEE arithmetic and 1/-0.0 = -inf
            # on the real code (outside the exact-real model, see DESIGN section 5): kept out of that harness' domain
            W[a][b] = M.real('w_%d_%d' % (a, b), lo=0, hi=hi, hi_open=(tr == 'log' and fn == 'rout_efficiency'))
            if und: W[b][a] = W[a][b]
    present = [[nz(W[a][b]) if a != b else False for b in range(n)] for a in range(n)]
    if tr == 'inv' or fn == 'efficiency_wei': L = [[(sc.ite(present[a][b], sc.div(1, sc.ite(present[a][b], W[a][b], 1)), 0) if a != b else 0) for b in range(n)] for a in range(n)]
    elif tr == 'log':
        L = [[0] * n for _ in range(n)]
        for a in range(n):
            for b in range(n):
                if a == b: continue
                if M.symbolic:
                    lg = sc.PYOPS['log'](sc.ite(present[a][b], W[a][b], 1))
                    M.assume(sc.le(lg, 0)); M.assume(eq(eq(W[a][b], 1), eq(lg, 0)) if True else True)
                    L[a][b] = sc.neg(lg)
                else:
                    import math
                    L[a][b] = -math.log(W[a][b]) if W[a][b] > 0 else 0.0
    else: L = W
    A = M.array(W, 'f')
    d, plist = wei_oracle(L, present, n)
    pairs = [(i, j) for i in range(n) for j in range(n) if i != j]
    if case['fn'] in ('distance_wei', 'efficiency_wei'):
        # Dijkstra's own comparisons have fixed the support and which path is shortest on this execution path: let the solver
        # confirm the winner once per pair, so that the oracle distance is a plain sum (keeps 1/d terms out of min-chains)
        for i, j in pairs:
            w = M.pick_min([pl for pl, h in plist[i][j]])
            if w is not None: d[i][j] = w
    def check_D(D, tag):
        for i, j in pairs:
            M.oblige('%s:distance_is_min_path_length#%d_%d' % (tag, i, j), dist_eq(M, sc.n_(cell(D, i, j)), d[i][j]))
        for i in range(n): M.oblige('%s:zero_diagonal#%d' % (tag, i), sc.eq(sc.n_(cell(D, i, i)), 0))
    def check_hops(B, tag):
        for i, j in pairs:
            b = sc.n_(cell(B, i, j))
            ok = lor(*[land(dist_eq(M, pl, d[i][j]), sc.eq(b, h)) for pl, h in plist[i][j]])
            M.oblige('%s:edge_count_of_some_shortest_path#%d_%d' % (tag, i, j), implies(lnot(sc.s_isinf(sc.n_(d[i][j]))), ok))
    def simp(x):
        # the code's own tests have already decided which path is shortest on this path: resolve the oracle's min accordingly
        if isinstance(x, sc.Ext): return sc.mkext(M.simplify(x.fin), M.simplify(x.inf))
        return M.simplify(x)
    def mean_inv():
        tot = 0
        for i, j in pairs:
            x = d[i][j]
            tot = sc.add(tot, sc.div(1, x) if not (isinstance(x, float) and x == float('inf')) else 0)
        return sc.div(tot, n * n - n)
    if fn == 'distance_wei':
        D, B = M.mod('distance').distance_wei(A); check_D(D, 'ret'); check_hops(B, 'ret'); M.result('D', D)
    elif fn == 'distance_wei_floyd':
        SPL, hops, Pmat = M.mod('distance').distance_wei_floyd(A, transform=tr); check_D(SPL, 'ret'); check_hops(hops, 'ret'); M.result('SPL', SPL)
    elif fn == 'efficiency_wei':
        # efficiency_wei takes weights and inverts them itself: the symbols are the weights, the oracle lengths are 1/w
        E = M.mod('efficiency').efficiency_wei(A)
        M.oblige('ret:global_efficiency_is_mean_inverse_distance', M.close(E, mean_inv(), tol=0 if M.symbolic else F(1, 10**9)))
        M.result('E', E)
    elif fn == 'rout_efficiency':
        GE, Er, Eloc = M.mod('efficiency').rout_efficiency(A, transform=tr)
        M.oblige('ret:global_routing_efficiency_is_mean_inverse_distance', M.close(GE, mean_inv(), tol=0 if M.symbolic else F(1, 10**9)))
        M.result('GE', GE)
    if tr == 'log': M.note('no_witness')        # -log is an uninterpreted function in the model: its values are not real logarithms
    if M.symbolic:
        M.note('connected' if M.truth_value(land(*[lnot(sc.s_isinf(sc.n_(d[i][j]))) for i, j in pairs])) else 'disconnected')
