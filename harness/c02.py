"""C02 / C07 — community detectors return a valid partition with its true modularity, and never a worse one than their start.

Optimisers: the weight matrix is concrete (enumerated family), gamma is a symbolic real in [1/2, 2] (every gain is affine in
gamma, so the solver splits the interval where the trajectory changes), the node visiting order is every order (forked
permutation draws), argmax is concretised.  Evaluators with a given partition: all weights and gamma symbolic."""
import itertools
from fractions import Fraction
import numpy as np
from symx import sc, ir
from harness.common import *

PROPERTY = 'C02'
FUNCTIONS = ['community_louvain', 'modularity_louvain_und', 'modularity_louvain_dir', 'modularity_louvain_und_sign', 'modularity_finetune_und', 'modularity_finetune_dir',
             'modularity_finetune_und_sign', 'modularity_probtune_und_sign', 'modularity_und', 'modularity_dir', 'modularity_und_sign']
ALLOWED_EXCEPTIONS = {}
GUARDS = [dict(note='node_moved', min=1, why='some explored path must move a node'), dict(note='several_final_partitions', min=0, why='')]
ASSUMPTIONS = ['optimisers: concrete weight matrices (listed family), gamma symbolic in [1/2, 2], every visiting order (permutation draws forked), at most 6 permutation draws per call',
               'evaluators: weights symbolic (und: symmetric >= 0; dir: >= 0; signed: free), gamma symbolic in [1/2, 2], all set partitions of the node set with two labelings each',
               'spectral mode of modularity_und/_dir (kci=None, LAPACK eig) is not encodable and not claimed', '"equal to floating-point accuracy" is asserted as |difference| <= 1e-9 in exact arithmetic']
BOUNDS = {'quick': dict(n='3..4', sweeps='<= 6 permutation draws'), 'thorough': dict(n='4..5')}
OPTS = {'quick': dict(witnesses_per_case=2, budget_s=900), 'thorough': dict(witnesses_per_case=2, budget_s=3000)}
F = Fraction
TOL = F(1, 10**9)
# exact ties between move gains are broken by index in exact arithmetic but by rounding noise in doubles: a witness whose
# trajectory passes through such a tie may legitimately diverge on the real code (either choice satisfies the property)
WITNESS_TIE_SENSITIVE = True

WU = {'u3': [[0, 2, 1], [2, 0, 0], [1, 0, 0]], 'tri3': [[0, 1, 1], [1, 0, 1], [1, 1, 0]], 'u4a': [[0, 3, 1, 0], [3, 0, 1, 0], [1, 1, 0, 2], [0, 0, 2, 0]],
      'u4b': [[0, 1, 1, 0], [1, 0, 1, 0], [1, 1, 0, 1], [0, 0, 1, 0]], 'u4c': [[0, 2, 0, 1], [2, 0, 1, 0], [0, 1, 0, 2], [1, 0, 2, 0]]}
WD = {'d3': [[0, 1, 1], [0, 0, 1], [1, 1, 0]], 'd3b': [[0, 2, 0], [0, 0, 3], [1, 1, 0]], 'd4': [[0, 2, 0, 1], [0, 0, 3, 0], [1, 0, 0, 0], [0, 2, 1, 0]],
      'd4b': [[0, 1, 0, 0], [1, 0, 1, 0], [0, 0, 0, 2], [1, 0, 2, 0]]}
WS = {'s3': [[0, 2, -1], [2, 0, 1], [-1, 1, 0]], 's4': [[0, 2, -1, 0], [2, 0, 3, -2], [-1, 3, 0, 1], [0, -2, 1, 0]], 's4b': [[0, 1, -2, 1], [1, 0, 1, -1], [-2, 1, 0, 2], [1, -1, 2, 0]]}
W6 = {'u6pairs': [[0, 5, 0, 0, 0, 1], [5, 0, 2, 0, 0, 0], [0, 2, 0, 5, 0, 0], [0, 0, 5, 0, 1, 0], [0, 0, 0, 1, 0, 5], [1, 0, 0, 0, 5, 0]],
      'u6pairs_b': [[0, 4, 1, 0, 0, 0], [4, 0, 0, 0, 0, 2], [1, 0, 0, 4, 0, 0], [0, 0, 4, 0, 2, 0], [0, 0, 0, 2, 0, 4], [0, 2, 0, 0, 4, 0]],
      'u6pairs_c': [[0, 4, 1, 0, 0, 0], [4, 0, 0, 0, 0, 2], [1, 0, 0, 4, 0, 0], [0, 0, 4, 0, 1, 0], [0, 0, 0, 1, 0, 2], [0, 2, 0, 0, 2, 0]]}
# five nodes with unequal strengths, started from partitions whose labels are not the node indices (bookkeeping indexed by
# module label vs by node shows only there); four visiting orders per sweep
W5 = {'p5w': [[0, 3, 0, 0, 0], [3, 0, 0, 3, 0], [0, 0, 0, 1, 0], [0, 3, 1, 0, 1], [0, 0, 0, 1, 0]],
      'k5w': [[0, 2, 1, 0, 0], [2, 0, 3, 0, 0], [1, 3, 0, 1, 0], [0, 0, 1, 0, 4], [0, 0, 0, 4, 0]]}
ORDERS5 = [[0, 1, 2, 3, 4], [4, 3, 2, 1, 0], [2, 4, 0, 3, 1], [3, 0, 4, 1, 2]]
ORDERS6 = [[0, 1, 2, 3, 4, 5], [5, 4, 3, 2, 1, 0], [2, 5, 0, 3, 1, 4], [4, 1, 3, 0, 5, 2]]
STARTS = {3: [None, [1, 1, 1], [5, 2, 5]], 4: [None, [1, 1, 1, 1], [1, 1, 2, 2], [7, 3, 3, 7]]}


def cases(tier, seed, prop='C02'):
    q = tier != 'thorough'
    cs = []
    def add(fn, wname, W, **k):
        n = len(W)
        k.setdefault('start', None)
        nm = '%s/%s/%s%s' % (fn, wname, 'start' + ''.join(map(str, k['start'])) if k['start'] else 'singletons', ''.join('/%s=%s' % kv for kv in sorted(k.items()) if kv[0] in ('qtype', 'B', 'hierarchy')))
        cs.append(dict(name=nm, fn=fn, kind='opt', W=W, n=n, weight=(30 if n == 3 else 400), shard_depth=8, cfg=dict(concretize_index=True), **k))
    if q:
        for wn in ('u3', 'tri3', 'u4a'):
            W = WU[wn]; n = len(W)
            for st in STARTS[n][:3]: add('modularity_finetune_und', wn, W, start=st)
            add('modularity_louvain_und', wn, W)
        add('modularity_louvain_und', 'u3', WU['u3'], hierarchy=True)
        for wn, nst in (('u3', 2), ('u4a', 1)):
            for st in STARTS[len(WU[wn])][:nst]: add('community_louvain', wn, WU[wn], start=st, B='modularity')
        add('community_louvain', 'tri3', WU['tri3'], B='potts'); add('community_louvain', 'u4b', WU['u4b'], B='potts')
        for wn in ('d3', 'd3b'):
            W = WD[wn]
            for st in STARTS[3][:2]: add('modularity_finetune_dir', wn, W, start=st)
        add('modularity_louvain_dir', 'd3', WD['d3'], draws=4)
        add('community_louvain', 'd3', WD['d3'], B='modularity', draws=3)
        for qt in ('sta', 'gja', 'neg'):
            for st in [None, [1, 1, 1], [1, 1, 2], [1, 2, 1], [1, 2, 2]]: add('modularity_finetune_und_sign', 's3', WS['s3'], start=st, qtype=qt)
            if qt != 'gja': add('modularity_finetune_und_sign', 's4', WS['s4'], start=[1, 1, 2, 2], qtype=qt, draws=3)
            add('modularity_louvain_und_sign', 's3', WS['s3'], qtype=qt)
        add('community_louvain', 's3', WS['s3'], B='negative_sym'); add('community_louvain', 's3', WS['s3'], B='negative_asym')
        add('modularity_probtune_und_sign', 's3', WS['s3'], qtype='sta', start=STARTS[3][1])
        # multi-level runs need six or more nodes: two 6-node 'three strong pairs' graphs with four first-level visiting orders
        # (all orders on the aggregated levels)
        for wn in W6:
            add('community_louvain', wn, W6[wn], B='modularity', orders6=True)
            for st in ([3, 3, 1, 1, 2, 2], [1, 1, 2, 2, 3, 4], [1, 2, 3, 3, 4, 4]):
                add('community_louvain', wn, W6[wn], B='modularity', orders6=True, start=st)
            add('modularity_louvain_und', wn, W6[wn], orders6=True)
        for wn in W5:
            for st in ([1, 1, 4, 5, 5], [2, 2, 1, 1, 3], [3, 1, 1, 2, 2]):
                add('modularity_finetune_und', wn, W5[wn], start=st, orders5=True, draws=4)
                add('community_louvain', wn, W5[wn], B='modularity', start=st, orders5=True, draws=4)
        for c in cs: c['budget_s'] = 300
    else:
        for wn, W in WU.items():
            n = len(W)
            for st in STARTS[n]:
                add('modularity_finetune_und', wn, W, start=st)
                add('community_louvain', wn, W, start=st, B='modularity')
            add('modularity_louvain_und', wn, W); add('modularity_louvain_und', wn, W, hierarchy=True)
            add('community_louvain', wn, W, B='potts') if all(x in (0, 1) for r in W for x in r) else None
        for wn, W in WD.items():
            n = len(W)
            for st in STARTS[n]: add('modularity_finetune_dir', wn, W, start=st)
            add('modularity_louvain_dir', wn, W); add('community_louvain', wn, W, B='modularity')
        for wn, W in WS.items():
            n = len(W)
            for qt in ('sta', 'pos', 'smp', 'gja', 'neg'):
                for st in STARTS[n][:2]: add('modularity_finetune_und_sign', wn, W, start=st, qtype=qt)
                add('modularity_louvain_und_sign', wn, W, qtype=qt)
            add('community_louvain', wn, W, B='negative_sym'); add('community_louvain', wn, W, B='negative_asym')
            add('modularity_probtune_und_sign', wn, W, qtype='sta', start=STARTS[n][1])
    if prop == 'C02':
        for fn, n in (('modularity_und', 3), ('modularity_dir', 3), ('modularity_und_sign', 3)) + ((('modularity_und', 4),) if not q else ()):
            for t, part in enumerate(set_partitions(n)):
                for lab in (0, 1):
                    qts = ('sta', 'pos', 'smp', 'gja', 'neg') if fn == 'modularity_und_sign' else (None,)
                    for qt in qts:
                        cs.append(dict(name='%s/n%d/part%s/lab%d%s' % (fn, n, ''.join(map(str, part)), lab, '/' + qt if qt else ''), fn=fn, kind='eval', n=n, part=part, lab=lab, qtype=qt, weight=5))
    return cs


def set_partitions(n):
    """restricted growth strings"""
    out = []
    def rec(pref, mx):
        if len(pref) == n: out.append(pref[:]); return
        for v in range(mx + 2):
            rec(pref + [v], max(mx, v))
    rec([0], 0)
    return out


# ------------------------------------------------------------------ definitions
def Qdef(fn, W, ci, gamma, n, qtype=None, B=None, haspos=None, hasneg=None):
    same = lambda i, j: ci[i] == ci[j]
    if fn in ('modularity_finetune_und', 'modularity_louvain_und', 'modularity_und') or (fn == 'community_louvain' and B == 'modularity') or fn in ('modularity_finetune_dir', 'modularity_louvain_dir', 'modularity_dir'):
        s = ssum(W[i][j] for i in range(n) for j in range(n))
        ko = [ssum(W[i][j] for j in range(n)) for i in range(n)]; ki = [ssum(W[i][j] for i in range(n)) for j in range(n)]
        tot = 0
        for i in range(n):
            for j in range(n):
                if same(i, j): tot = sc.add(tot, sc.sub(W[i][j], sc.div(sc.mul(gamma, sc.mul(ko[i], ki[j])), s)))
        return sc.div(tot, s)
    if fn == 'community_louvain' and B == 'potts':
        s = ssum(W[i][j] for i in range(n) for j in range(n))
        tot = 0
        for i in range(n):
            for j in range(n):
                if same(i, j): tot = sc.add(tot, sc.sub(W[i][j], sc.mul(gamma, 1 - W[i][j])))
        return sc.div(tot, s)
    # signed objectives
    W0 = [[W[i][j] if (not isinstance(W[i][j], ir.T) and W[i][j] > 0) else (sc.ite(sc.gt(W[i][j], 0), W[i][j], 0) if isinstance(W[i][j], ir.T) else 0) for j in range(n)] for i in range(n)]
    W1 = [[-W[i][j] if (not isinstance(W[i][j], ir.T) and W[i][j] < 0) else (sc.ite(sc.lt(W[i][j], 0), sc.neg(W[i][j]), 0) if isinstance(W[i][j], ir.T) else 0) for j in range(n)] for i in range(n)]
    s0 = ssum(W0[i][j] for i in range(n) for j in range(n)); s1 = ssum(W1[i][j] for i in range(n) for j in range(n))
    def safe(sx):      # divisor that is 1 where the sum vanishes (the term it scales is 0 there)
        return sc.ite(sc.eq(sx, 0), 1, sx) if isinstance(sx, ir.T) else (sx if sx != 0 else 1)
    def part(Wx, sx):
        if not isinstance(sx, ir.T) and sx == 0: return 0
        k = [ssum(Wx[i][j] for j in range(n)) for i in range(n)]; kin = [ssum(Wx[i][j] for i in range(n)) for j in range(n)]
        tot = 0
        for i in range(n):
            for j in range(n):
                if same(i, j): tot = sc.add(tot, sc.sub(Wx[i][j], sc.div(sc.mul(gamma, sc.mul(k[i], kin[j])), safe(sx))))
        return tot
    q0, q1 = part(W0, s0), part(W1, s1)
    z = lambda x: (not isinstance(x, ir.T)) and x == 0
    if haspos is False: s0 = 0; q0 = 0
    if hasneg is False: s1 = 0; q1 = 0
    if haspos or hasneg: safe = lambda sx: sx      # the harness has forked on presence: totals are non-zero on this path
    if fn == 'community_louvain':
        if B == 'negative_sym': return sc.sub(sc.div(q0, sc.add(s0, s1)), sc.div(q1, sc.add(s0, s1)))
        return sc.sub(sc.div(q0, s0), sc.div(q1, sc.add(s0, s1)))
    both = safe(sc.add(s0, s1))
    d0 = {'smp': lambda: sc.div(1, safe(s0)), 'gja': lambda: sc.div(1, both), 'sta': lambda: sc.div(1, safe(s0)), 'pos': lambda: sc.div(1, safe(s0)), 'neg': lambda: 0}[qtype]() if not z(s0) else 0
    d1 = {'smp': lambda: sc.div(1, safe(s1)), 'gja': lambda: sc.div(1, both), 'sta': lambda: sc.div(1, both), 'pos': lambda: 0, 'neg': lambda: sc.div(1, safe(s1))}[qtype]() if not z(s1) else 0
    if isinstance(s0, ir.T): d0 = sc.ite(sc.eq(s0, 0), 0, d0)      # the routines drop a term whose total weight is absent
    if isinstance(s1, ir.T): d1 = sc.ite(sc.eq(s1, 0), 0, d1)
    return sc.sub(sc.mul(d0, q0), sc.mul(d1, q1))


def close(M, a, b):
    if M.symbolic: return sc.land(sc.le(sc.sub(a, b), TOL), sc.le(sc.sub(b, a), TOL))
    return abs(float(a) - float(b)) <= 1e-9 * max(1.0, abs(float(b)))


def body(case, M, props=('C02',)):
    return {'opt': body_opt, 'eval': body_eval}[case['kind']](case, M, props)


def call_opt(M, case, W, gamma, ci, rng, hierarchy=False):
    fn = case['fn']; mod = M.mod('modularity'); f = getattr(mod, fn)
    kw = dict(seed=rng)
    if fn == 'community_louvain': return f(W, gamma=gamma, ci=ci, B=case.get('B', 'modularity'), **kw)
    if fn in ('modularity_finetune_und', 'modularity_finetune_dir'): return f(W, ci=ci, gamma=gamma, **kw)
    if fn in ('modularity_finetune_und_sign', 'modularity_probtune_und_sign'): return f(W, qtype=case.get('qtype', 'sta'), gamma=gamma, ci=ci, **kw)
    if fn == 'modularity_louvain_und_sign': return f(W, gamma=gamma, qtype=case.get('qtype', 'sta'), **kw)
    return f(W, gamma=gamma, hierarchy=hierarchy, **kw)


def body_opt(case, M, props):
    fn, n, Wl = case['fn'], case['n'], case['W']
    gamma = M.real('gamma', lo=F(1, 2), hi=2)
    W = M.array([[float(x) if not M.symbolic else x for x in r] for r in Wl], 'f')
    start = case.get('start')
    ci0 = M.array(start, 'i') if start else None
    rng = M.rng(budget=case.get('draws', 6), fork_perm=True, fork_int=True, perm_subset=(ORDERS6 if case.get('orders6') else ORDERS5 if case.get('orders5') else None))
    hier = bool(case.get('hierarchy'))
    out = call_opt(M, case, W, gamma, ci0, rng, hier)
    ci, q = out
    levels = [(ci, q)] if not hier else list(zip(list(ci), list(q)))
    qd = lambda labels: Qdef(fn, Wl, labels, gamma, n, case.get('qtype'), case.get('B'))
    start_labels = start if start else list(range(1, n + 1))
    prev_q = None
    for lv, (c, qq) in enumerate(levels):
        labels = [M.int_value(x) for x in vec(c)]
        tag = 'ret' if not hier else 'level%d' % lv
        if 'C02' in props:
            M.oblige('%s:one_label_per_node' % tag, len(labels) == n)
            M.oblige('%s:labels_are_exactly_1_to_k' % tag, sorted(set(labels)) == list(range(1, max(labels) + 1)))
            if fn != 'modularity_probtune_und_sign' or True:
                M.oblige('%s:q_equals_definition' % tag, close(M, qq, qd(labels)), dict(fn=fn, gamma_is_one=None))
        if 'C07' in props and fn != 'modularity_probtune_und_sign':
            if lv == 0: M.oblige('%s:not_worse_than_start' % tag, sc.ge(qd(labels), sc.sub(qd(start_labels), TOL)) if M.symbolic else float(qd(labels)) >= float(qd(start_labels)) - 1e-9)
            if prev_q is not None: M.oblige('%s:hierarchy_strictly_increasing' % tag, sc.gt(qq, prev_q) if M.symbolic else float(qq) > float(prev_q))
        prev_q = qq
        if labels != start_labels: M.note('node_moved')
    if 'C07' in props and not hier and n == 3 and (fn != 'modularity_finetune_dir' or case.get('idem')) and fn in ('modularity_finetune_und', 'modularity_finetune_dir', 'modularity_finetune_und_sign', 'community_louvain'):
        # idempotence: feeding the result back must not lower the modularity
        labels = [M.int_value(x) for x in vec(ci)]
        rng2 = M.rng(budget=3, stream='second', fork_perm=True, fork_int=True)
        ci2, q2 = call_opt(M, case, W, gamma, M.array(labels, 'i'), rng2)
        l2 = [M.int_value(x) for x in vec(ci2)]
        M.oblige('again:feeding_output_back_never_lowers_modularity', sc.ge(qd(l2), sc.sub(qd(labels), TOL)) if M.symbolic else float(qd(l2)) >= float(qd(labels)) - 1e-9)
    M.result('q', q if not hier else list(q))


def body_eval(case, M, props):
    fn, n, part, lab = case['fn'], case['n'], case['part'], case['lab']
    gamma = M.real('gamma', lo=F(1, 2), hi=2) if fn != 'modularity_und_sign' else 1
    und = fn != 'modularity_dir'
    W = [[0] * n for _ in range(n)]
    for a in range(n):
        for b in range(n):
            if a == b or (und and b < a): continue
            W[a][b] = M.real('w_%d_%d' % (a, b), lo=(None if fn == 'modularity_und_sign' else 0), hi=8)
            if und: W[b][a] = W[a][b]
    tot = ssum(sc.sabs(W[a][b]) for a in range(n) for b in range(n))
    M.assume(sc.gt(tot, F(1, 8)))           # positive total weight
    labels = [(p + 1) if lab == 0 else (7 * p + 3) for p in part]
    ci = M.array(labels, 'i')
    mod = M.mod('modularity')
    A = M.array(W, 'f')
    haspos = hasneg = None
    if fn == 'modularity_und_sign':
        # fork on "no positive weight" / "no negative weight" first: the routine special-cases absent totals
        pos = lor(*[sc.gt(W[a][b], 0) for a in range(n) for b in range(n) if a != b]); neg = lor(*[sc.lt(W[a][b], 0) for a in range(n) for b in range(n) if a != b])
        haspos, hasneg = M.truth_value(pos), M.truth_value(neg)
        if not haspos:          # all weights <= 0: make that syntactic for the oracle
            W = [[(sc.smin(x, 0) if not isinstance(x, (int, float)) or x else x) for x in r] for r in W]
        if not hasneg:
            W = [[(sc.smax(x, 0) if not isinstance(x, (int, float)) or x else x) for x in r] for r in W]
        ci_out, q = mod.modularity_und_sign(A, ci, qtype=case['qtype'])
    else:
        ci_out, q = getattr(mod, fn)(A, gamma=gamma, kci=ci)
    out_labels = [M.int_value(x) for x in vec(ci_out)]
    M.oblige('ret:returns_the_given_partition', all((out_labels[i] == out_labels[j]) == (part[i] == part[j]) for i in range(n) for j in range(n)))
    M.oblige('ret:q_equals_definition', close(M, q, Qdef(fn, W, part, gamma, n, case.get('qtype'), haspos=(haspos if fn == 'modularity_und_sign' else None), hasneg=(hasneg if fn == 'modularity_und_sign' else None))))
    M.result('q', q)
