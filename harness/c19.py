"""C19 — NBS reports true supra-threshold components and correct permutation p-values.

The t statistics take square roots of data, so the subject stacks are enumerated (small integer-valued 4- and 5-node data sets);
the solver quantifies over the threshold (a symbolic real: every interval between the concrete statistics) and the subject
relabelling (a symbolic permutation restricted to a seeded list of orders).  The oracle recomputes the statistics from the
textbook formulas, the components by a separate search, and the null values per relabelling."""
import itertools, math
from fractions import Fraction
import numpy as np
from symx import sc, ir
from harness.common import *

PROPERTY = 'C19'
FUNCTIONS = ['nbs_bct', 'get_components']
ALLOWED_EXCEPTIONS = {}
GUARDS = [dict(note='component_found', min=1, why='some explored path must report a component'), dict(note='two_components', min=1, why='the 5-node stack must yield two components for some threshold'),
          dict(note='rejected', min=1, why='a threshold above every statistic must be rejected on some path')]
ASSUMPTIONS = ['data: enumerated integer-valued stacks on 4 nodes (group sizes 2+3 and 3+3, a zero-variance edge, effects of either sign) and one on 5 nodes with two components of different sizes',
               'threshold symbolic in [0, 8], kept 1e-6 away from every t statistic (routine and oracle round differently); k in {1, 2}; subject relabellings: a seeded list of permutations per draw (symbolic choice among them); unpaired test only',
               'paired=True: one 3+3 stack without zero-variance differences; each uniform variate behind a sign flip is a symbolic choice from {1/4, 3/4} (thorough: also 1/2, i.e. sign 0)']
BOUNDS = {'quick': dict(nodes='4 (two stacks), 5 (one stack)', subjects='2+3, 3+3', k='1..2', relabellings='identity + 5 seeded per draw'),
          'thorough': dict(nodes='4 (two stacks), 5 (one stack)', subjects='2+3, 3+3', k='1..2', relabellings='identity + 11 seeded per draw')}
OPTS = {'quick': dict(witnesses_per_case=2, budget_s=600), 'thorough': dict(witnesses_per_case=2, budget_s=2000)}
F = Fraction

# edge order = np.where(np.triu(ones, 1)): (0,1),(0,2),(0,3),(1,2),(1,3),(2,3); one row of subject values per edge
DATA = {
 'a23': dict(x=[[5, 7], [1, 2], [4, 4], [9, 6], [2, 2], [3, 8]], y=[[1, 2, 2], [1, 3, 2], [4, 4, 4], [2, 1, 3], [7, 9, 8], [3, 2, 4]]),
 'b33': dict(x=[[6, 7, 8], [1, 2, 1], [5, 5, 6], [2, 2, 2], [9, 7, 8], [1, 4, 2]], y=[[1, 2, 1], [6, 7, 9], [5, 6, 5], [2, 2, 2], [1, 3, 2], [2, 3, 3]]),
}
# five nodes (10 edges): a strong two-connection chain 0-1-2 and a weaker single connection 3-4, so that two components of
# different sizes exist for a range of thresholds; every other edge carries no effect
DATA['c33n5'] = dict(n=5, x=[[9, 8, 9], [2, 2, 3], [1, 2, 1], [2, 1, 2], [8, 9, 9], [2, 3, 2], [1, 1, 2], [3, 2, 2], [2, 2, 1], [6, 5, 6]],
                     y=[[1, 2, 1], [2, 3, 2], [1, 1, 2], [2, 2, 1], [2, 1, 1], [2, 2, 3], [1, 2, 1], [2, 3, 2], [2, 1, 2], [3, 3, 4]])


# paired design (3 subjects measured twice): no connection has all |differences| equal, so no sign flip gives zero variance
DATA['p33'] = dict(paired=True, x=[[6, 7, 9], [2, 5, 1], [8, 6, 9], [3, 3, 4], [1, 2, 2], [4, 4, 4]], y=[[1, 3, 2], [1, 2, 4], [2, 1, 1], [3, 1, 5], [6, 4, 9], [3, 5, 1]])


def edges_of(n): return [(i, j) for i in range(n) for j in range(i + 1, n)]


def cases(tier, seed):
    import random
    rnd = random.Random(seed)
    cs = []
    for dn, d in DATA.items():
        if d.get('paired'):
            unif = ['1/4', '3/4'] + (['1/2'] if tier == 'thorough' else [])
            for tail in ('both', 'left', 'right'):
                for k in (1, 2):
                    cs.append(dict(name='nbs_bct/%s/paired/%s/k%d' % (dn, tail, k), fn='nbs_bct', data=dn, tail=tail, k=k, paired=True, unif=unif, weight=20 * k, shard_depth=6 if k == 2 else None))
            continue
        ns = len(d['x'][0]) + len(d['y'][0])
        allp = list(itertools.permutations(range(ns)))
        perms = [list(range(ns))] + [list(p) for p in rnd.sample(allp, 5 if tier != 'thorough' else 11)]
        small = d.get('n', 4) == 4 or tier == 'thorough'
        for tail in (('both', 'left', 'right') if small else ('both', 'right')):
            for k in ((1, 2) if small else (2,)):
                cs.append(dict(name='nbs_bct/%s/%s/k%d' % (dn, tail, k), fn='nbs_bct', data=dn, tail=tail, k=k, perms=perms, weight=20 * k, shard_depth=6 if k == 2 else None))
    return cs


def tstat(x, y, tail):
    n1, n2 = len(x), len(y)
    m1, m2 = sum(x) / n1, sum(y) / n2
    v1 = sum((a - m1) ** 2 for a in x) / (n1 - 1); v2 = sum((a - m2) ** 2 for a in y) / (n2 - 1)
    s = math.sqrt(((n1 - 1) * v1 + (n2 - 1) * v2) / (n1 + n2 - 2))
    den = s * math.sqrt(1 / n1 + 1 / n2)
    if den == 0: return 0.0
    t = (m1 - m2) / den
    return abs(t) if tail == 'both' else (-t if tail == 'left' else t)


def tstat_paired(x, y, tail):
    dd = [a - b for a, b in zip(x, y)]; n = len(dd)
    m = sum(dd) / n
    sd = math.sqrt(sum((v - m) ** 2 for v in dd) / (n - 1))
    if sd == 0: t = float('nan') if m == 0 else math.copysign(float('inf'), m)     # numpy: 0/0 = nan (never exceeds), c/0 = +-inf
    else: t = m / (sd / math.sqrt(n))
    return abs(t) if tail == 'both' else (-t if tail == 'left' else t)


def components(n, edges_on):
    lab = list(range(n))
    for (a, b) in edges_on:
        la, lb = lab[a], lab[b]
        if la != lb: lab = [la if v == lb else v for v in lab]
    groups = {}
    for v in range(n): groups.setdefault(lab[v], []).append(v)
    return [g for g in groups.values() if len(g) > 1]


def body(case, M):
    d = DATA[case['data']]; tail, k = case['tail'], case['k']
    n = d.get('n', 4); nx, ny = len(d['x'][0]), len(d['y'][0])
    EDGES = edges_of(n); ne = len(EDGES)
    def stack(rows, ns):
        a = [[[0.0 if not M.symbolic else 0] * ns for _ in range(n)] for _ in range(n)]
        for e, (i, j) in enumerate(EDGES):
            for s in range(ns):
                v = rows[e][s] if M.symbolic else float(rows[e][s])
                a[i][j][s] = v; a[j][i][s] = v
        return M.array(a, 'f')
    X, Y = stack(d['x'], nx), stack(d['y'], ny)
    thr = M.real('thresh', lo=0, hi=8)
    paired = bool(case.get('paired'))
    rng = M.rng(budget=k + 1, unif_subset=[F(u) for u in case['unif']]) if paired else M.rng(budget=k + 1, fork_perm=True, perm_subset=case['perms'])
    tstat = tstat_paired if paired else globals()['tstat']
    def exceeds(t):
        if t != t: return False
        if t in (float('inf'), float('-inf')): return t > 0
        return bool(M.truth_value(sc.gt(F(t).limit_denominator(10**12) if M.symbolic else t, thr)))
    def clear(stats):
        # the routine and the oracle compute the statistic in different operation orders (1e-15 apart): keep the threshold
        # at least 1e-6 away from every statistic so both classify every connection alike
        for t in stats:
            if t != t or t in (float('inf'), float('-inf')): continue
            tf = F(t).limit_denominator(10**12) if M.symbolic else t
            M.assume(sc.ge(sc.sabs(sc.sub(thr, tf)), F(1, 10**6)))
    BCTParamError = M.mod('misc').BCTParamError
    try:
        pvals, adj, null = M.mod('nbs').nbs_bct(X, Y, thr, k=k, tail=tail, paired=paired, seed=rng)
    except BCTParamError as e:
        # "Unsuitable threshold" (nothing supra-threshold) / "degenerate": must coincide with the oracle seeing no component
        ts = [tstat(d['x'][e], d['y'][e], tail) for e in range(ne)]
        clear(ts)
        none_above = not any(exceeds(t) for t in ts)
        M.oblige('ret:error_only_when_nothing_exceeds_threshold', none_above)
        M.note('rejected'); return
    ts = [tstat(d['x'][e], d['y'][e], tail) for e in range(ne)]
    clear(ts)
    above = [exceeds(t) for t in ts]
    on = [EDGES[e] for e in range(ne) if above[e]]
    comps = components(n, on)
    # adjacency: supra-threshold edges inside a component, labelled i+1 per component (in get_components' label order)
    A = adj.view(np.ndarray) if isinstance(adj, np.ndarray) else adj
    marked = {(i, j): M.int_value(A[i, j]) for i in range(n) for j in range(n)}
    for e, (i, j) in enumerate(EDGES):
        M.oblige('ret:marks_exactly_suprathreshold_edges#%d' % e, (marked[(i, j)] != 0) == above[e] and marked[(i, j)] == marked[(j, i)])
    labels_per_comp = []
    for g in comps:
        labs = {marked[(i, j)] for (i, j) in on if i in g and j in g}
        M.oblige('ret:one_label_per_component#%s' % ''.join(map(str, g)), len(labs) == 1 and 0 not in labs)
        labels_per_comp.append((min(labs) if labs else 0, g))
    M.oblige('ret:component_labels_are_1_to_m', sorted(l for l, g in labels_per_comp) == list(range(1, len(comps) + 1)))
    pv = [x for x in vec(pvals)]; nl = [M.int_value(x) for x in vec(null)]
    M.oblige('ret:one_pvalue_per_component', len(pv) == len(comps))
    M.oblige('ret:k_null_values', len(nl) == k)
    # null values: largest component (in connections) under each relabelling actually drawn
    allv = [d['x'][e] + d['y'][e] for e in range(ne)]
    if paired:
        us = [dd[1] for dd in (rng.draws if M.symbolic else rng.script) if dd[0] == 'random_sample']
        drawn = [('signs', [(1 if F(1, 2) - F(v) > 0 else (-1 if F(1, 2) - F(v) < 0 else 0)) for v in us[u * nx:(u + 1) * nx]]) for u in range(k)]
    else:
        drawn = [('perm', [M.int_value(v) for v in dr[2]]) for dr in ([dd for dd in rng.draws if dd[0] == 'permutation'][:k] if M.symbolic else rng.script[:k])]
    for u, (kind, p) in enumerate(drawn):
        if kind == 'signs': tsp = [tstat([sg * v for sg, v in zip(p, d['x'][e])], [sg * v for sg, v in zip(p, d['y'][e])], tail) for e in range(ne)]
        else: tsp = [tstat([allv[e][q] for q in p[:nx]], [allv[e][q] for q in p[nx:]], tail) for e in range(ne)]
        clear(tsp)
        ab = [exceeds(t) for t in tsp]
        onp = [EDGES[e] for e in range(ne) if ab[e]]
        sizes = [sum(1 for (i, j) in onp if i in g and j in g) for g in components(n, onp)]
        if u < len(nl): M.oblige('ret:null_is_largest_component_under_relabelling#%d' % u, nl[u] == (max(sizes) if sizes else 0))
    for l, g in sorted(labels_per_comp):
        size = sum(1 for (i, j) in on if i in g and j in g)
        if 1 <= l <= len(pv):
            exp = Fraction(sum(1 for v in nl if v >= size), k)
            M.oblige('ret:pvalue_is_fraction_of_null_at_least_component_size#%d' % l, sc.eq(pv[l - 1], exp) if M.symbolic else abs(float(pv[l - 1]) - float(exp)) <= 1e-12)
    M.result('null', nl)
    if comps: M.note('component_found')
    if len(comps) >= 2: M.note('two_components')

