"""C11 — constrained rewiring honours connectivity, lattice cost and forbidden cells.

Same explorations as C01 (harness.c01 bodies) with the C11 assertions attached: connectivity of the output and of the
matrix after every accepted swap, rejection of disconnected / asymmetric input, non-increasing lattice cost for the
distance matrix passed by the caller, and the mask of randomize_graph_partial_und.
"""
import itertools
from fractions import Fraction
from symx import sc
from harness.common import *
from harness import c01

PROPERTY = 'C11'
FUNCTIONS = ['randmio_und_connected', 'randmio_dir_connected', 'latmio_und_connected', 'latmio_dir_connected', 'latmio_und', 'latmio_dir',
             'randomize_graph_partial_und', 'number_of_components', 'get_components']
ALLOWED_EXCEPTIONS = {}
GUARDS = [dict(note='swap_accepted:' + f, min=1, why='some explored path of %s must accept a swap' % f)
          for f in ('randmio_und_connected', 'randmio_dir_connected', 'latmio_und', 'latmio_dir', 'latmio_und_connected', 'randomize_graph_partial_und')] + \
         [dict(note='rejected_by_connectivity_test', min=1, why='some explored path must have a swap candidate refused (otherwise the connectivity test was never exercised)'),
          dict(note='param_error_raised', min=1, why='the rejection cases must reach BCTParamError')]
ASSUMPTIONS = c01.ASSUMPTIONS + ['lattice cost: weights symbolic with the circular distance matrix passed explicitly as D, and weights concrete (1) with a symbolic symmetric D >= 0',
                                 'asymmetric input differs by at least 1/8 in one cell with |w| <= 8 (np.allclose tolerance is modelled exactly: |a-b| <= 1e-8 + 1e-5|b|)']
BOUNDS = {'quick': dict(n=4, iterations='1 (randmio), k (latmio)'), 'thorough': dict(n='4..5', iterations='1..2')}
OPTS = {'quick': dict(witnesses_per_case=2, budget_s=400), 'thorough': dict(witnesses_per_case=3, budget_s=3000)}

T5 = {'P5': [(0, 1), (1, 2), (2, 3), (3, 4)], 'fork5': [(0, 1), (1, 2), (2, 3), (2, 4)], 'P5chord': [(0, 1), (1, 2), (2, 3), (3, 4), (0, 2)],
      'C5': [(0, 1), (1, 2), (2, 3), (3, 4), (4, 0)], 'bowtie': [(0, 1), (1, 2), (0, 2), (2, 3), (3, 4), (2, 4)]}


def cases(tier, seed):
    q = tier != 'thorough'
    cs = []
    def add(**k):
        k.setdefault('name', '%s/%s/%s/m%s' % (k['fn'], k['kind'], k.get('sup', ''), k.get('iters', '')))
        if 'support' in k and 'draws' not in k:
            S = k['support']; n = k['n']; ne = sum(map(sum, S)) // (2 if k['fn'] in c01.UND else 1)
            m = k['iters'] if not k['fn'].startswith('latmio') else k['iters'] * ne
            k['draws'] = c01._draws(k['fn'], n, ne, m, 0)
        cs.append(k)
    # connectivity: undirected
    for s, m in ([('P4', 1), ('P4b', 1), ('C4', 1), ('paw', 1)] if q else [(s, m) for s in ('P4', 'P4b', 'C4', 'paw', 'diamond') for m in (1, 2)]):
        add(fn='randmio_und_connected', kind='conn', n=4, sup=s, support=c01.und_from_edges(4, c01.U4[s]), iters=m, weight=10 * m, shard_depth=8 if m > 1 else None)
    if not q:
        for s in T5:
            add(fn='randmio_und_connected', kind='conn', n=5, sup=s, support=c01.und_from_edges(5, T5[s]), iters=1, weight=60, shard_depth=8)
    for s, m in ([('ring4', 1), ('sc5', 1), ('sc5b', 1), ('sc5c', 1), ('sc5d', 1)] if q else [(s, m) for s in ('ring4', 'sc5', 'sc5b', 'sc5c', 'sc5d', 'ring4_chord') for m in (1, 2)]):
        add(fn='randmio_dir_connected', kind='conn', n=4, sup=s, support=c01.dir_from_arcs(4, c01.D4[s]), iters=m, weight=10 * m, shard_depth=8 if m > 1 else None)
    for p in c01._perms(4, seed, 2 if q else 8):
        extra = dict(draws=1 + 4 * 3, fork_int=True, shard_depth=24) if q else dict(fork_int=True, shard_depth=24)
        add(fn='latmio_und_connected', kind='conn_lat', n=4, sup='P4', support=c01.und_from_edges(4, c01.U4['P4']), iters=1, perm=p, weight=100,
            name='latmio_und_connected/conn/P4/perm' + ''.join(map(str, p)), **extra)
    if not q:
        for p in c01._perms(4, seed, 4):
            add(fn='latmio_dir_connected', kind='conn_lat', n=4, sup='sc5', support=c01.dir_from_arcs(4, c01.D4['sc5']), iters=1, perm=p, weight=200, fork_int=True, shard_depth=24,
                name='latmio_dir_connected/conn/sc5/perm' + ''.join(map(str, p)))
    # rejection of bad input
    for fn in ('randmio_und_connected', 'latmio_und_connected'):
        add(fn=fn, kind='reject_disconnected', n=4, sup='2K2', support=c01.und_from_edges(4, c01.U4['2K2']), iters=1, draws=4)
        add(fn=fn, kind='reject_disconnected', n=4, sup='P3+iso', support=c01.und_from_edges(4, [(0, 1), (1, 2)]), iters=1, draws=4)
        add(fn=fn, kind='reject_asymmetric', n=4, sup='P4', support=c01.und_from_edges(4, c01.U4['P4']), iters=1, draws=4)
    # lattice cost
    for fn, s in (('latmio_und', '2K2'), ('latmio_dir', '2arcs')) + ((('latmio_und', 'P4'), ('latmio_dir', '3arcs_fan')) if not q else ()):
        und = fn == 'latmio_und'
        S = c01.und_from_edges(4, c01.U4[s]) if und else c01.dir_from_arcs(4, c01.D4[s])
        for p in c01._perms(4, seed, 3 if q else 12):
            for dk in ('D_circular_w_symbolic', 'D_symbolic_w_one', 'D_generic_w_symbolic'):
                add(fn=fn, kind='cost', n=4, sup=s, support=S, iters=1, perm=p, dmode=dk, weight=40, fork_int=True,
                    shard_depth=10 if not q and len(c01.U4[s] if und else c01.D4[s]) >= 3 else None,
                    name='%s/cost/%s/%s/perm%s' % (fn, s, dk, ''.join(map(str, p))))
    # lattice cost of the connected latticisers (sparse connected inputs; attempts bounded by the draw budget in quick)
    for p in ([[0, 2, 1, 3], [1, 3, 0, 2]] if q else [[0, 2, 1, 3], [1, 3, 0, 2]] + c01._perms(4, seed, 6)):
        extra = dict(draws=1 + 4 * 3, any_sign=True) if q else dict(any_sign=True)
        for dk in ('D_circular_w_symbolic', 'D_generic_w_symbolic'):
            add(fn='latmio_und_connected', kind='cost', n=4, sup='P4', support=c01.und_from_edges(4, c01.U4['P4']), iters=1, perm=p, dmode=dk, weight=150, fork_int=True,
                shard_depth=24, name='latmio_und_connected/cost/P4/%s/perm' % dk + ''.join(map(str, p)), **extra)
    if not q:
        for p in c01._perms(4, seed, 4):
            add(fn='latmio_dir_connected', kind='cost', n=4, sup='sc5', support=c01.dir_from_arcs(4, c01.D4['sc5']), iters=1, perm=p, dmode='D_circular_w_symbolic', weight=300, fork_int=True,
                shard_depth=24, name='latmio_dir_connected/cost/sc5/D_circular_w_symbolic/perm' + ''.join(map(str, p)))
    # mask
    for s, ms in ([('2K2', 1), ('2K2', 2), ('P4', 1)] if q else [(s, ms) for s in ('2K2', 'P4', 'C4', 'paw') for ms in (1, 2)]):
        add(fn='randomize_graph_partial_und', kind='mask', n=4, sup=s, support=c01.und_from_edges(4, c01.U4[s]), iters=ms, draws=3 * ms + (2 if len(c01.U4[s]) <= 3 else 5), weight=5 * 4 ** ms,
            shard_depth=8 if ms >= 2 else None)
    return cs


def connected_cond(X, n, directed):
    adj = [[nz(cell(X, a, b)) if directed else lor(nz(cell(X, a, b)), nz(cell(X, b, a))) for b in range(n)] for a in range(n)]
    C = closure(adj, n)
    return land(*[C[a][b] for a in range(n) for b in range(n) if a != b])


def circ(n): return [[min(abs(a - b), n - abs(a - b)) for b in range(n)] for a in range(n)]


def body(case, M):
    kind, fn, n = case['kind'], case['fn'], case['n']
    directed = fn not in c01.UND
    if kind == 'conn':
        attempts = [0]
        def extra(ev, M, st, W0, ns):
            if ev == 'swap':
                M.oblige('swap%d:connected' % ns, connected_cond(st['R'], n, directed))
            elif ev == 'ret':
                M.oblige('ret:connected', connected_cond(st['R'], n, directed))
                if M.symbolic and ns == 0: M.note('rejected_by_connectivity_test')
        return c01.body_randmio(case, M, extra)
    if kind == 'conn_lat':
        def extra(ev, M, st, W0, ns):
            if ev == 'D': return None
            if ev == 'swap': M.oblige('swap%d:connected' % ns, connected_cond(st['R'], n, directed))
            elif ev == 'ret':
                M.oblige('ret:connected', connected_cond(st['Rlatt'], n, directed))
                M.oblige('ret:connected_latticised_order', connected_cond(st['Rrp'], n, directed))
        return c01.body_latmio(case, M, extra)
    if kind in ('reject_disconnected', 'reject_asymmetric'):
        return body_reject(case, M)
    if kind == 'cost':
        return body_cost(case, M)
    if kind == 'mask':
        def extra(ev, M, st, W0, ns):
            if ev == 'ret':
                X, bm = st['X'], st['bm']
                for a in range(n):
                    for b in range(n):
                        if a == b: continue
                        M.oblige('ret:mask_respected#%d_%d' % (a, b), implies(land(bm[a][b], nz(cell(X, a, b))), nz(W0[a][b])))
        return c01.body_partial(case, M, extra)
    raise ValueError(kind)


def body_reject(case, M):
    fn, n, sup, kind = case['fn'], case['n'], case['support'], case['kind']
    vals = c01.sym_weights(M, n, sup, False)
    if kind == 'reject_asymmetric':
        # break symmetry in one cell by a symbolic amount of at least 1/8 (values bounded so that allclose must see it)
        d = M.real('delta', lo=Fraction(1, 8), hi=4)
        for a in range(n):
            for b in range(n):
                if sup[a][b]: M.assume(land(sc.le(vals[a][b], 8), sc.ge(vals[a][b], -8)))
        vals[1][0] = sc.add(vals[1][0], d) if M.symbolic else vals[1][0] + d
    W = M.array(vals, 'f')
    rng = M.rng(budget=case['draws'], fork_perm=True)
    BCTParamError = M.mod('misc').BCTParamError
    raised = False
    try:
        getattr(M.mod('reference'), fn)(W, 1, seed=rng)
    except BCTParamError:
        raised = True
    M.oblige('ret:bad_input_rejected_with_BCTParamError', raised)
    if raised: M.note('param_error_raised')
    M.result('raised', raised)


def body_cost(case, M):
    fn, n, sup, dmode = case['fn'], case['n'], case['support'], case['dmode']
    directed = fn not in c01.UND
    if dmode in ('D_circular_w_symbolic', 'D_generic_w_symbolic'):
        # generic: a caller-supplied symmetric distance matrix with pairwise different entries (mis-paired products show)
        Dv = circ(n) if dmode == 'D_circular_w_symbolic' else [[0, 1, 4, 2], [1, 0, 3, 5], [4, 3, 0, 6], [2, 5, 6, 0]]
        def weights(): return c01.sym_weights(M, n, sup, directed, lo=None if case.get('any_sign') else 0)
    else:
        Dv = [[0] * n for _ in range(n)]
        for a in range(n):
            for b in range(a + 1, n):
                Dv[a][b] = Dv[b][a] = M.real('D_%d_%d' % (a, b), lo=0, hi=8)
        def weights(): return [[(1 if sup[a][b] else 0) for b in range(n)] for a in range(n)]
    vals = weights()
    if dmode == 'D_symbolic_w_one':
        vals = [[float(v) if not M.symbolic else v for v in row] for row in vals]
    state = {'prev': None}
    def cost(R): return ssum(sc.mul(Dv[a][b], cell(R, a, b)) for a in range(n) for b in range(n))
    def extra(ev, M_, st, W0, ns):
        if ev == 'D': return M.array(Dv, 'f')
        if ev == 'swap':
            R = st['R']
            # cost before this swap: undo it arithmetically on the four touched cells is routine-specific; instead keep the running value
            cur = cost(R)
            if state['prev'] is not None:
                M.oblige('swap%d:lattice_cost_not_increased' % ns, sc.le(cur, state['prev']))
            state['prev'] = cur
            state.setdefault('first', cur)
        elif ev == 'ret':
            p = st['p']
            start = ssum(sc.mul(Dv[x][y], W0[p[x]][p[y]]) for x in range(n) for y in range(n))
            M.oblige('ret:lattice_cost_not_increased', sc.le(cost(st['Rrp']), start))
            if 'first' in state:
                M.oblige('swap1:lattice_cost_not_increased', sc.le(state['first'], start))
    # body_latmio builds its own symbolic weights; give it ours through a tiny shim
    orig = c01.sym_weights
    try:
        c01.sym_weights = lambda *a, **k: vals
        return c01.body_latmio(case, M, extra)
    finally:
        c01.sym_weights = orig
