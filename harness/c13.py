"""C13 — library calls never modify the caller's arrays unless copy=False is requested.

Every array argument gets a symbolic (unconstrained real) diagonal on top of an enumerated off-diagonal template
(binary / weighted / signed / directed / disconnected); after the call -- return or exception -- every cell of every
argument must still hold its original term.  Label vectors use arbitrary non-contiguous labels.
"""
from fractions import Fraction
import numpy as np
from symx import sc
from harness.common import *

PROPERTY = 'C13'
ALLOWED_EXCEPTIONS = {}
ASSUMPTIONS = ['off-diagonal entries are enumerated templates (n = 3 and n = 4), diagonal entries are unconstrained symbolic reals',
               'at most path_cap completed paths per (function, template, options) case are explored; the rest is outside the claim',
               'functions that reach LAPACK / scipy.sparse or an unsupported NumPy idiom are listed as not encoded in the evidence and are not claimed',
               'stub: in pagerank_centrality np.linalg.solve returns an arbitrary vector of positive reals (the property looks only at the arguments afterwards)']
BOUNDS = {'quick': dict(n='3..4', path_cap=24), 'thorough': dict(n='3..4', path_cap=200)}
OPTS = {'quick': dict(witnesses_per_case=0, budget_s=120), 'thorough': dict(witnesses_per_case=0, budget_s=900)}
GUARDS = []

F = Fraction
T = {
 'bu': [[0, 1, 1], [1, 0, 0], [1, 0, 0]], 'bu4': [[0, 1, 1, 0], [1, 0, 1, 0], [1, 1, 0, 1], [0, 0, 1, 0]], 'bu_disc': [[0, 1, 0, 0], [1, 0, 0, 0], [0, 0, 0, 1], [0, 0, 1, 0]],
 'bu_iso': [[0, 1, 0], [1, 0, 0], [0, 0, 0]],
 'bd': [[0, 1, 0], [0, 0, 1], [1, 1, 0]], 'bd4': [[0, 1, 0, 0], [0, 0, 1, 1], [1, 0, 0, 0], [0, 0, 1, 0]], 'bd_sink': [[0, 1, 0], [0, 0, 0], [1, 1, 0]],
 'wu': [[0, F(1, 2), F(1, 4)], [F(1, 2), 0, 1], [F(1, 4), 1, 0]], 'wu4': [[0, F(1, 2), F(1, 4), 0], [F(1, 2), 0, 1, 0], [F(1, 4), 1, 0, F(3, 4)], [0, 0, F(3, 4), 0]],
 'wu_disc': [[0, F(1, 2), 0, 0], [F(1, 2), 0, 0, 0], [0, 0, 0, F(1, 4)], [0, 0, F(1, 4), 0]],
 'wd': [[0, F(1, 2), 0], [F(1, 4), 0, 1], [F(3, 4), 0, 0]], 'wd4': [[0, F(1, 2), 0, F(1, 8)], [F(1, 4), 0, 1, 0], [F(3, 4), 0, 0, F(1, 2)], [0, 1, 0, 0]],
 'ws': [[0, F(1, 2), F(-1, 4)], [F(1, 2), 0, 1], [F(-1, 4), 1, 0]], 'ws4': [[0, F(1, 2), F(-1, 4), 0], [F(1, 2), 0, 1, F(-1, 2)], [F(-1, 4), 1, 0, F(3, 4)], [0, F(-1, 2), F(3, 4), 0]],
 'len': [[0, 2, 1], [2, 0, 3], [1, 3, 0]], 'len_disc': [[0, 2, 0, 0], [2, 0, 0, 0], [0, 0, 0, 1], [0, 0, 1, 0]],
}
CI = {3: [3, 3, 7], 4: [5, 5, 2, 9]}

# (function, module, [argument specs], [kwargs variants], templates)
# argument specs: 'M' = matrix (template + symbolic diagonal), 'CI' = label vector, ('const', v) = plain python value
UND_B = ['bu', 'bu4', 'bu_disc', 'bu_iso']; DIR_B = ['bd', 'bd4', 'bd_sink']; UND_W = ['wu', 'wu4', 'wu_disc']; DIR_W = ['wd', 'wd4']; SGN = ['ws', 'ws4']
SPECS = [
 ('threshold_absolute', 'other', ['M', ('const', F(1, 2))], [{}, {'copy': True}], UND_W + DIR_W + SGN),
 ('threshold_proportional', 'other', ['M', ('const', F(1, 2))], [{}, {'copy': True}], UND_W + DIR_W),
 ('binarize', 'other', ['M'], [{}], UND_W + SGN + UND_B), ('normalize', 'other', ['M'], [{}], UND_W + SGN), ('invert', 'other', ['M'], [{}], UND_W + SGN),
 ('weight_conversion', 'other', ['M', ('const', 'binarize')], [{}], UND_W), ('weight_conversion', 'other', ['M', ('const', 'normalize')], [{}], UND_W),
 ('weight_conversion', 'other', ['M', ('const', 'lengths')], [{}], UND_W), ('autofix', 'other', ['M'], [{}], UND_W + UND_B),
 ('degrees_und', 'degree', ['M'], [{}], UND_B + UND_W), ('degrees_dir', 'degree', ['M'], [{}], DIR_B + DIR_W), ('strengths_und', 'degree', ['M'], [{}], UND_W),
 ('strengths_dir', 'degree', ['M'], [{}], DIR_W), ('strengths_und_sign', 'degree', ['M'], [{}], SGN), ('jdegree', 'degree', ['M'], [{}], DIR_B),
 ('density_und', 'physical_connectivity', ['M'], [{}], UND_W), ('density_dir', 'physical_connectivity', ['M'], [{}], DIR_W),
 ('clustering_coef_bu', 'clustering', ['M'], [{}], UND_B), ('clustering_coef_bd', 'clustering', ['M'], [{}], DIR_B), ('clustering_coef_wu', 'clustering', ['M'], [{}], UND_W),
 ('clustering_coef_wd', 'clustering', ['M'], [{}], DIR_W),
 ('clustering_coef_wu_sign', 'clustering', ['M'], [{}, {'coef_type': 'zhang'}, {'coef_type': 'costantini'}], SGN),
 ('transitivity_bu', 'clustering', ['M'], [{}], UND_B), ('transitivity_bd', 'clustering', ['M'], [{}], DIR_B), ('transitivity_wu', 'clustering', ['M'], [{}], UND_W),
 ('transitivity_wd', 'clustering', ['M'], [{}], DIR_W), ('get_components', 'clustering', ['M'], [{}], UND_B + UND_W), ('number_of_components', 'clustering', ['M'], [{}], UND_B),
 ('agreement_weighted', 'clustering', [('arr', [[1, 1, 2], [1, 2, 2]], 'i'), ('arr', [F(1, 2), F(1, 4)], 'f')], [{}], ['bu']),
 ('betweenness_bin', 'centrality', ['M'], [{}], UND_B + DIR_B), ('betweenness_wei', 'centrality', ['M'], [{}], ['len', 'len_disc']),
 ('edge_betweenness_bin', 'centrality', ['M'], [{}], ['bu', 'bu4', 'bd']), ('edge_betweenness_wei', 'centrality', ['M'], [{}], ['len', 'len_disc']),
 ('diversity_coef_sign', 'centrality', ['M', 'CI'], [{}], SGN), ('gateway_coef_sign', 'centrality', ['M', 'CI'], [{}, {'centrality_type': 'betweenness'}], SGN),
 ('module_degree_zscore', 'centrality', ['M', 'CI'], [{}, {'flag': 2}], UND_W + DIR_W), ('participation_coef', 'centrality', ['M', 'CI'], [{}, {'degree': 'out'}], UND_W + DIR_W),
 ('participation_coef_sign', 'centrality', ['M', 'CI'], [{}], SGN), ('kcoreness_centrality_bu', 'centrality', ['M'], [{}], UND_B), ('kcoreness_centrality_bd', 'centrality', ['M'], [{}], DIR_B),
 ('pagerank_centrality', 'centrality', ['M', ('const', F(17, 20))], [{}, {'falff': 'FALFF'}], ['wu', 'wd', 'bd_sink', 'bu_iso']),
 ('flow_coef_bd', 'centrality', ['M'], [{}], DIR_B + ['bu']), ('erange', 'centrality', ['M'], [{}], DIR_B),
 ('assortativity_bin', 'core', ['M'], [{}, {'flag': 1}], UND_B + DIR_B), ('assortativity_wei', 'core', ['M'], [{}, {'flag': 1}], UND_W + DIR_W),
 ('kcore_bu', 'core', ['M', ('const', 1)], [{}, {'peel': True}], UND_B), ('kcore_bd', 'core', ['M', ('const', 1)], [{}, {'peel': True}], DIR_B),
 ('score_wu', 'core', ['M', ('const', F(1, 2))], [{}], UND_W), ('local_assortativity_wu_sign', 'core', ['M'], [{}], SGN),
 ('rich_club_bu', 'core', ['M'], [{}], UND_B), ('rich_club_bd', 'core', ['M'], [{}], DIR_B), ('rich_club_wu', 'core', ['M'], [{}], UND_W), ('rich_club_wd', 'core', ['M'], [{}], DIR_W),
 ('core_periphery_dir', 'core', ['M'], [{'seed': 'rng'}], DIR_W + UND_W), ('clique_communities', 'core', ['M', ('const', 3)], [{}], UND_B),
 ('distance_bin', 'distance', ['M'], [{}], UND_B + DIR_B), ('distance_wei', 'distance', ['M'], [{}], ['len', 'len_disc']),
 ('distance_wei_floyd', 'distance', ['M'], [{}, {'transform': 'inv'}, {'transform': 'log'}], UND_W + ['wu_disc']), ('breadthdist', 'distance', ['M'], [{}], UND_B + DIR_B),
 ('reachdist', 'distance', ['M'], [{}, {'ensure_binary': False}], UND_B + DIR_B), ('findwalks', 'distance', ['M'], [{}], ['bu', 'bd']),
 ('charpath', 'distance', ['D'], [{}, {'include_diagonal': True}, {'include_infinite': False}, {'include_diagonal': True, 'include_infinite': False}], ['bu', 'bu_disc', 'bd_sink']),
 ('efficiency_bin', 'efficiency', ['M'], [{}, {'local': True}], UND_B), ('efficiency_wei', 'efficiency', ['M'], [{}, {'local': True}], UND_W),
 ('rout_efficiency', 'efficiency', ['M'], [{}, {'transform': 'inv'}], ['len', 'wu']),
 ('edge_nei_overlap_bu', 'similarity', ['M'], [{}], UND_B), ('edge_nei_overlap_bd', 'similarity', ['M'], [{}], DIR_B), ('gtom', 'similarity', ['M', ('const', 2)], [{}], UND_B),
 ('matching_ind', 'similarity', ['M'], [{}], DIR_B + ['bu']), ('matching_ind_und', 'similarity', ['M'], [{}], UND_B), ('dice_pairwise_und', 'similarity', ['M', 'M2'], [{}], ['bu', 'bu4']),
 ('modularity_und', 'modularity', ['M'], [{'kci': 'CI'}], UND_W), ('modularity_dir', 'modularity', ['M'], [{'kci': 'CI'}], DIR_W), ('modularity_und_sign', 'modularity', ['M', 'CI'], [{}, {'qtype': 'gja'}], SGN),
 ('modularity_finetune_und', 'modularity', ['M'], [{'ci': 'CI', 'seed': 'rng'}], UND_W), ('modularity_finetune_dir', 'modularity', ['M'], [{'ci': 'CI', 'seed': 'rng'}], DIR_W),
 ('modularity_finetune_und_sign', 'modularity', ['M'], [{'ci': 'CI', 'seed': 'rng'}], SGN), ('modularity_louvain_und', 'modularity', ['M'], [{'seed': 'rng'}], ['wu']),
 ('modularity_louvain_dir', 'modularity', ['M'], [{'seed': 'rng'}], ['wd']), ('modularity_louvain_und_sign', 'modularity', ['M'], [{'seed': 'rng'}], ['ws']),
 ('community_louvain', 'modularity', ['M'], [{'ci': 'CI', 'seed': 'rng'}, {'seed': 'rng', 'B': 'negative_sym'}], ['wu', 'ws']),
 ('partition_distance', 'modularity', ['CI', 'CI2'], [{}], ['bu']), ('ci2ls', 'modularity', ['CI'], [{}], ['bu']),
 ('randmio_und', 'reference', ['M', ('const', F(1, 5))], [{'seed': 'rng'}], ['bu_disc', 'wu_disc']), ('randmio_dir', 'reference', ['M', ('const', F(1, 4))], [{'seed': 'rng'}], ['bd4']),
 ('randmio_und_signed', 'reference', ['M', ('const', F(1, 4))], [{'seed': 'rng'}], ['ws4']), ('randmio_dir_signed', 'reference', ['M', ('const', F(1, 8))], [{'seed': 'rng'}], ['ws4']),
 ('randmio_und_connected', 'reference', ['M', ('const', F(1, 5))], [{'seed': 'rng'}], ['bu4']), ('latmio_und', 'reference', ['M', ('const', 0)], [{'seed': 'rng'}], ['bu_disc']),
 ('latmio_dir', 'reference', ['M', ('const', 0)], [{'seed': 'rng'}], ['bd4']), ('randomizer_bin_und', 'reference', ['M', ('const', F(1, 2))], [{'seed': 'rng'}], ['bu4', 'bu_disc']),
 ('randomize_graph_partial_und', 'reference', ['M', 'M2', ('const', 1)], [{'seed': 'rng'}], ['bu_disc']),
 ('null_model_und_sign', 'reference', ['M'], [{'bin_swaps': 0, 'wei_freq': 0, 'seed': 'rng'}], ['ws']), ('null_model_dir_sign', 'reference', ['M'], [{'bin_swaps': 0, 'wei_freq': 0, 'seed': 'rng'}], ['ws']),
]
FUNCTIONS = sorted({s[0] for s in SPECS})
# engine options per function.  pagerank_centrality ends in np.linalg.solve (LAPACK, not encoded): this property only looks at the
# arguments afterwards, so the solve is replaced by a stub returning an arbitrary vector of positive reals
FN_CFG = {'pagerank_centrality': dict(linalg_solve_stub=True)}


def cases(tier, seed):
    cs = []
    cap = 24 if tier != 'thorough' else 200
    for fn, mod, args, kws, temps in SPECS:
        for t in temps:
            for ki, kw in enumerate(kws):
                for diag in ('sym', 'conc'):
                    # 'sym': unconstrained symbolic diagonal (optional: non-linear functions of the diagonal can defeat the solver);
                    # 'conc': a fixed non-zero dyadic diagonal, so that every function is at least exercised on a non-empty diagonal
                    cs.append(dict(name='%s/%s/%s/%s' % (fn, t, ','.join('%s=%s' % kv for kv in kw.items()) or '-', diag) + ('/' + str(args[1][1]) if len(args) > 1 and isinstance(args[1], tuple) and isinstance(args[1][1], str) else ''),
                                   fn=fn, mod=mod, args=[a if isinstance(a, str) else [a[0], str(a[1]) if isinstance(a[1], Fraction) else a[1]] + list(a[2:]) for a in args],
                                   kw={k: v for k, v in kw.items()}, template=t, path_cap=cap, optional=(diag == 'sym'), diag=diag,
                                   budget_s=40 if diag == 'sym' else 120, cfg=FN_CFG.get(fn, {})))
    return cs


def _num(v, M):
    if isinstance(v, str) and '/' in v: v = Fraction(v)
    if isinstance(v, Fraction) and not M.symbolic: return float(v)
    return v


def build_matrix(M, t, tag):
    tpl = T[t]; n = len(tpl)
    DG = [F(1, 2), 2, F(-3, 4), 1]
    dg = (lambda a: M.real('%s_diag_%d' % (tag, a))) if CUR['diag'] == 'sym' else (lambda a: _num(DG[a], M))
    vals = [[(_num(tpl[a][b], M) if a != b else dg(a)) for b in range(n)] for a in range(n)]
    if not M.symbolic: vals = [[float(x) for x in r] for r in vals]
    return M.array(vals, 'f'), [r[:] for r in vals]


CUR = {'diag': 'sym'}


def body(case, M):
    CUR['diag'] = case.get('diag', 'sym')
    fn = getattr(M.mod(case['mod']), case['fn'])
    t = case['template']; n = len(T[t])
    args = []; snaps = []
    def arr_arg(a, snap): args.append(a); snaps.append((len(args) - 1, a, snap))
    for spec in case['args']:
        if spec == 'M': a, s = build_matrix(M, t, 'w'); arr_arg(a, s)
        elif spec == 'M2': a, s = build_matrix(M, t, 'v'); arr_arg(a, s)
        elif spec == 'D':
            # a distance matrix: hop distances of the template with a symbolic diagonal
            import itertools
            tpl = T[t]; INF = float('inf')
            d = [[(0 if a == b else (1 if tpl[a][b] else INF)) for b in range(n)] for a in range(n)]
            for k_ in range(n):
                for a in range(n):
                    for b in range(n):
                        if d[a][k_] + d[k_][b] < d[a][b]: d[a][b] = d[a][k_] + d[k_][b]
            vals = [[(d[a][b] if a != b else (M.real('w_diag_%d' % a) if CUR['diag'] == 'sym' else _num([F(1, 2), 2, F(-3, 4), 1][a], M))) for b in range(n)] for a in range(n)]
            if not M.symbolic: vals = [[float(x) for x in r] for r in vals]
            arr_arg(M.array(vals, 'f'), [r[:] for r in vals])
        elif spec == 'CI': v = list(CI[n]); arr_arg(M.array(v, 'i'), v)
        elif spec == 'CI2': v = list(reversed(CI[n])); arr_arg(M.array(v, 'i'), v)
        elif spec[0] == 'arr':
            v = spec[1]
            vv = [[_num(x, M) for x in r] for r in v] if isinstance(v[0], list) else [_num(x, M) for x in v]
            arr_arg(M.array(vv, spec[2]), vv)
        else: args.append(_num(spec[1], M))
    kw = {}
    for k, v in case['kw'].items():
        if v == 'rng': kw[k] = M.rng(budget=24, fork_int=True, fork_perm=True, perm_subset=[[1, 2, 0], [2, 0, 3, 1]])
        elif v == 'CI': c = list(CI[n]); a = M.array(c, 'i'); kw[k] = a; snaps.append((k, a, c))
        elif v == 'FALFF': c = [_num(x, M) for x in [F(1, 2), F(1, 4), F(3, 4), 1][:n]]; a = M.array(c, 'f'); kw[k] = a; snaps.append((k, a, c))
        else: kw[k] = _num(v, M)
    exc = None
    try:
        fn(*args, **kw)
    except Exception as e:
        if type(e).__name__ in ('Unsupported',): raise
        exc = type(e).__name__
    for pos, a, snap in snaps:
        P = a.view(np.ndarray) if isinstance(a, np.ndarray) else a
        M.oblige('arg%s:shape_kept' % pos, tuple(P.shape) == tuple(np.shape(snap)))
        if tuple(P.shape) != tuple(np.shape(snap)): continue
        if P.ndim == 2:
            for x in range(P.shape[0]):
                for y in range(P.shape[1]):
                    M.oblige('arg%s:cell_unchanged#%d_%d' % (pos, x, y), same(P[x, y], snap[x][y]))
        else:
            for x in range(P.shape[0]):
                M.oblige('arg%s:cell_unchanged#%d' % (pos, x), same(P[x], snap[x]))
    if exc: M.note('raised:' + exc)


def same(a, b):
    if a is b: return True
    if isinstance(a, float) and isinstance(b, float) and (a == b or (a != a and b != b)): return True
    return sc.eq(a, b)
