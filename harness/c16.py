"""C16 — connected components are exactly the classes of mutually reachable nodes.

Symbolic symmetric real matrix (any diagonal): the routine's own `A[u, v] == 1` tests fork on every bit, so each path is
one labelled graph (path-enumerating), while values and diagonal stay symbolic; an asymmetric symbolic matrix must raise
BCTParamError on every path."""
from fractions import Fraction
import numpy as np
from symx import sc
from harness.common import *

PROPERTY = 'C16'
FUNCTIONS = ['get_components', 'number_of_components', 'distance_bin', 'breadthdist', 'reachdist', 'binarize']
ALLOWED_EXCEPTIONS = {}
GUARDS = [dict(note='multi_component', min=1, why='some explored graph must be disconnected'), dict(note='single_component', min=1, why='some explored graph must be connected'),
          dict(note='param_error_raised', min=1, why='asymmetric input must reach BCTParamError')]
ASSUMPTIONS = ['entries are arbitrary reals (zero or not decided by the solver per path), diagonal arbitrary; exploration is one path per labelled graph',
               'asymmetric case: one pair of mirrored cells constrained to differ']
BOUNDS = {'quick': dict(n='all labelled graphs on <= 5 nodes'), 'thorough': dict(n='all graphs <= 5 nodes; 16 seeded families of 256 graphs on 6 nodes')}
OPTS = {'quick': dict(witnesses_per_case=4, budget_s=600), 'thorough': dict(witnesses_per_case=4, budget_s=3000)}


def cases(tier, seed):
    q = False          # the full bounds cost about a minute: quick and thorough coincide
    cs = [dict(name='get_components/n%d' % n, fn='get_components', kind='gc', n=n, weight=4 ** n, shard_depth=(5 if n >= 4 else None)) for n in (2, 3, 4)]
    cs.append(dict(name='get_components/n5', fn='get_components', kind='gc', n=5, weight=1000, shard_depth=6))
    if not q:
        import random
        rnd = random.Random(seed)
        pairs = [(a, b) for a in range(6) for b in range(a + 1, 6)]
        for t in range(16):
            fixed = {}
            free = rnd.sample(pairs, 8)
            for pr in pairs:
                if pr not in free: fixed['%d_%d' % pr] = rnd.choice([0, 0, 1])
            cs.append(dict(name='get_components/n6/family%d' % t, fn='get_components', kind='gc', n=6, fixed=fixed, weight=400, shard_depth=4))
    for n in (2, 3):
        cs.append(dict(name='get_components/asymmetric/n%d' % n, fn='get_components', kind='asym', n=n))
    cs.append(dict(name='number_of_components/asymmetric/n3', fn='number_of_components', kind='asym', n=3))
    return cs


def body(case, M):
    return {'gc': body_gc, 'asym': body_asym}[case['kind']](case, M)


def body_gc(case, M):
    n = case['n']; fixed = case.get('fixed', {})
    vals = [[None] * n for _ in range(n)]
    for a in range(n):
        for b in range(a, n):
            key = '%d_%d' % (a, b)
            if key in fixed:
                v = (M.real('w_' + key, nonzero=True) if fixed[key] else (0 if M.symbolic else 0.0))
            else: v = M.real('w_' + key)
            vals[a][b] = vals[b][a] = v
    A = M.array(vals, 'f')
    cl = M.mod('clustering')
    comps, sizes = cl.get_components(A)
    nc = cl.number_of_components(A)
    adj = [[nz(vals[a][b]) for b in range(n)] for a in range(n)]
    C = closure(adj, n)
    cv = vec(comps)
    M.oblige('ret:one_label_per_node', len(cv) == n)
    if len(cv) != n: return
    labs = [M.int_value(x) for x in cv]
    m = max(labs)
    M.oblige('ret:labels_are_1_to_m', sorted(set(labs)) == list(range(1, m + 1)))
    for a in range(n):
        for b in range(a):
            M.oblige('ret:same_label_iff_connected#%d_%d' % (a, b), eq(labs[a] == labs[b], C[a][b]) if M.symbolic else ((labs[a] == labs[b]) == bool(C[a][b])))
    sv = [M.int_value(x) for x in vec(sizes)]
    M.oblige('ret:one_size_per_label', len(sv) == m)
    for l in range(1, min(m, len(sv)) + 1):
        M.oblige('ret:size_counts_nodes_with_label#%d' % l, sv[l - 1] == sum(1 for x in labs if x == l))
    M.oblige('ret:number_of_components_is_number_of_labels', M.int_value(nc) == m)
    # agreement with the distance routines on the same network (empty diagonal, binarised)
    B = M.array([[(sc.ite(adj[a][b], 1, 0) if M.symbolic else float(bool(adj[a][b]))) if a != b else (0 if M.symbolic else 0.0) for b in range(n)] for a in range(n)], 'f')
    dist = M.mod('distance')
    D = dist.distance_bin(B)
    Rb, Db = dist.breadthdist(B)
    Rr, Dr = dist.reachdist(B)
    for a in range(n):
        for b in range(n):
            if a == b: continue
            same = labs[a] == labs[b]
            M.oblige('ret:agrees_with_distance_bin#%d_%d' % (a, b), eq(sc.s_isfinite(sc.n_(cell(D, a, b))), same))
            M.oblige('ret:agrees_with_breadthdist#%d_%d' % (a, b), eq(sc.s_isfinite(sc.n_(cell(Db, a, b))), same))
            M.oblige('ret:agrees_with_reachdist#%d_%d' % (a, b), eq(sc.truth(cell(Rr, a, b)), same))
            M.oblige('ret:agrees_with_reachdist_distance#%d_%d' % (a, b), eq(sc.s_isfinite(sc.n_(cell(Dr, a, b))), same))
    M.result('comps', comps); M.result('sizes', sizes)
    M.note('multi_component' if m > 1 else 'single_component')


def body_asym(case, M):
    n = case['n']
    vals = [[M.real('w_%d_%d' % (a, b)) for b in range(n)] for a in range(n)]
    M.assume(sc.ne(vals[0][1], vals[1][0]))
    A = M.array(vals, 'f')
    BCTParamError = M.mod('misc').BCTParamError
    raised = False
    try: getattr(M.mod('clustering'), case['fn'])(A)
    except BCTParamError: raised = True
    M.oblige('ret:asymmetric_input_rejected', raised)
    if raised: M.note('param_error_raised')
    M.result('raised', raised)
