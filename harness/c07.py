"""C07 — modularity optimisers never return a partition worse than their start (same explorations as C02, C07 assertions)."""
from harness import c02
PROPERTY = 'C07'
FUNCTIONS = c02.FUNCTIONS[:7]
ALLOWED_EXCEPTIONS = {}
GUARDS = [dict(note='node_moved', min=1, why='some explored path must move a node')]
ASSUMPTIONS = c02.ASSUMPTIONS
BOUNDS = c02.BOUNDS
OPTS = c02.OPTS
WITNESS_TIE_SENSITIVE = True

def cases(tier, seed):
    return [c for c in c02.cases(tier, seed, prop='C07') if c['kind'] == 'opt' and c['fn'] != 'modularity_probtune_und_sign']

def body(case, M):
    return c02.body(case, M, props=('C07',))
