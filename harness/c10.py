"""C10 — weighted measures reduce to binary on 0/1 input, directed to undirected on symmetric input.

Relational harness: two public functions run on the same input inside one exploration and their outputs must be equal.
0/1 inputs: one path per labelled graph (bits forked).  Symmetric weighted inputs: symbolic cube-root weights on each
forked support.  Weight-ignoring routines: symbolic positive weights vs the binarised matrix."""
import itertools
from fractions import Fraction
import numpy as np
from symx import sc, ir
from harness.common import *
from harness.c09 import forked_graph

PROPERTY = 'C10'
PAIRS01_UND = [('clustering_coef_wu', 'clustering_coef_bu', 'clustering'), ('transitivity_wu', 'transitivity_bu', 'clustering'), ('strengths_und', 'degrees_und', 'degree'),
               ('assortativity_wei', 'assortativity_bin', 'core'), ('efficiency_wei', 'efficiency_bin', 'efficiency'), ('efficiency_wei_local', 'efficiency_bin_local', 'efficiency')]
PAIRS01_ANY = [('clustering_coef_wd', 'clustering_coef_bd', 'clustering'), ('transitivity_wd', 'transitivity_bd', 'clustering'), ('strengths_dir', 'degrees_dir', 'degree'),
               ('distance_wei', 'distance_bin', 'distance'), ('betweenness_wei', 'betweenness_bin', 'centrality'), ('edge_betweenness_wei', 'edge_betweenness_bin', 'centrality')]
PAIRS_SYM = [('clustering_coef_bd', 'clustering_coef_bu', 'clustering', False), ('clustering_coef_wd', 'clustering_coef_wu', 'clustering', True),
             ('transitivity_bd', 'transitivity_bu', 'clustering', False), ('transitivity_wd', 'transitivity_wu', 'clustering', True), ('degrees_dir', 'degrees_und', 'degree', True)]
IGNORE_W = [('degrees_und', 'degree', True), ('degrees_dir', 'degree', False), ('density_und', 'physical_connectivity', True), ('density_dir', 'physical_connectivity', False),
            ('distance_bin', 'distance', False), ('reachdist', 'distance', False), ('breadthdist', 'distance', False), ('kcore_bu', 'core', True), ('kcore_bd', 'core', False),
            ('get_components', 'clustering', True)]
FUNCTIONS = sorted({x for p in PAIRS01_UND + PAIRS01_ANY for x in p[:2]} | {x for p in PAIRS_SYM for x in p[:2]} | {p[0] for p in IGNORE_W} | {'binarize'})
FUNCTIONS = [f.replace('_local', '') for f in FUNCTIONS]
ALLOWED_EXCEPTIONS = {}
GUARDS = [dict(note='has_triangle', min=1, why='some explored graph must contain a triangle'), dict(note='disconnected', min=1, why='some explored graph must be disconnected')]
ASSUMPTIONS = ['0/1 inputs: one path per labelled graph (all undirected graphs on 4 nodes, all digraphs on 3 nodes, a seeded 64-member family of 4-node digraphs)',
               'symmetric weighted inputs: weights w = c^3, c symbolic in (0, 1], on each forked undirected support', 'weight-ignoring routines: weights symbolic in (0, 8]']
BOUNDS = {'quick': dict(n='3..4'), 'thorough': dict(n='4..5')}
OPTS = {'quick': dict(witnesses_per_case=2, budget_s=900), 'thorough': dict(witnesses_per_case=2, budget_s=3000)}
F = Fraction


def cases(tier, seed):
    q = False          # the full bounds cost about a minute: quick and thorough coincide
    import random
    rnd = random.Random(seed)
    pairs4 = [(a, b) for a in range(4) for b in range(4) if a != b]
    free = rnd.sample(pairs4, 6)
    fam = {'%d_%d' % p: rnd.choice([0, 1, 1]) for p in pairs4 if p not in free}
    cs = []
    for wf, bf, mod in PAIRS01_UND:
        cs.append(dict(name='01/%s=%s/n4und' % (wf, bf), fn=wf, other=bf, mod=mod, kind='p01', n=4, undirected=True, weight=100, shard_depth=4))
        if not q: cs.append(dict(name='01/%s=%s/n5und' % (wf, bf), fn=wf, other=bf, mod=mod, kind='p01', n=5, undirected=True, weight=2000, shard_depth=7))
    for wf, bf, mod in PAIRS01_ANY:
        cs.append(dict(name='01/%s=%s/n3dir' % (wf, bf), fn=wf, other=bf, mod=mod, kind='p01', n=3, weight=100, shard_depth=4))
        cs.append(dict(name='01/%s=%s/n4und' % (wf, bf), fn=wf, other=bf, mod=mod, kind='p01', n=4, undirected=True, weight=100, shard_depth=4))
        cs.append(dict(name='01/%s=%s/n4dirfamily' % (wf, bf), fn=wf, other=bf, mod=mod, kind='p01', n=4, fixed=fam, weight=100, shard_depth=4))
    # 6-node 0/1 families for the path-counting pairs: a skeleton with merging bundles of geodesics plus seeded free cells
    skel6 = [(0, 1), (0, 2), (1, 4), (2, 4), (0, 3), (3, 5), (4, 5)]
    allp6 = [(a, b) for a in range(6) for b in range(a + 1, 6)]
    for wf, bf, mod in PAIRS01_ANY[3:]:
        for t in range(2 if q else 6):
            extra = rnd.sample([p for p in allp6 if p not in skel6], 2)
            fixed = {'%d_%d' % p: 0 for p in allp6 if p not in skel6 and p not in extra}
            cs.append(dict(name='01/%s=%s/n6und_family%d' % (wf, bf, t), fn=wf, other=bf, mod=mod, kind='p01', n=6, undirected=True, fixed=fixed, weight=600, shard_depth=5))
    for df, uf, mod, weighted in PAIRS_SYM:
        cs.append(dict(name='sym/%s=%s/n4' % (df, uf), fn=df, other=uf, mod=mod, kind='psym', n=4, undirected=True, weighted=weighted, weight=100, shard_depth=4))
    for f, mod, und in IGNORE_W:
        cs.append(dict(name='ignore_w/%s/%s' % (f, 'n4und' if und else 'n3dir'), fn=f, other=f, mod=mod, kind='pign', n=4 if und else 3, undirected=und, weight=100, shard_depth=4))
    return cs


def call(M, mod, name, A, extra=()):
    if name.endswith('_local'): return getattr(M.mod(mod), name[:-6])(A, local=True)
    return getattr(M.mod(mod), name)(A, *extra)


def flatten(x):
    if isinstance(x, tuple): return [v for part in x for v in flatten(part)]
    if isinstance(x, np.ndarray): return list(x.view(np.ndarray).reshape(-1))
    if isinstance(x, list): return [v for part in x for v in flatten(part)]
    return [x]


def same_outputs(M, a, b, tag):
    fa, fb = flatten(a), flatten(b)
    M.oblige('%s:same_shape' % tag, len(fa) == len(fb))
    for t, (x, y) in enumerate(zip(fa, fb)):
        x, y = sc.n_(x) if not isinstance(x, (ir.T, sc.Ext)) else x, sc.n_(y) if not isinstance(y, (ir.T, sc.Ext)) else y
        if M.symbolic:
            if isinstance(x, float) and isinstance(y, float) and x != x and y != y: ok = True       # both undefined (0/0)
            else: ok = True if ir.poly_equal(x, y) else sc.eq(x, y)
        else:
            fx, fy = float(x), float(y)
            ok = (fx == fy) or (fx != fx and fy != fy) or abs(fx - fy) <= 1e-9 * max(1.0, abs(fy))
        M.oblige('%s:equal#%d' % (tag, t), ok)


def notes(M, adj, n):
    A = [[1 if adj[a][b] else 0 for b in range(n)] for a in range(n)]
    if any((A[a][b] or A[b][a]) and (A[b][d] or A[d][b]) and (A[a][d] or A[d][a]) for a, b, d in itertools.combinations(range(n), 3)): M.note('has_triangle')
    S = [[A[a][b] or A[b][a] for b in range(n)] for a in range(n)]
    if not connected_und(S): M.note('disconnected')


def body(case, M):
    n, kind = case['n'], case['kind']
    und = case.get('undirected', False)
    adj = forked_graph(M, n, und, case.get('fixed', {}))
    notes(M, adj, n)
    if kind == 'p01':
        A = M.array([[1.0 if adj[a][b] else 0.0 for b in range(n)] for a in range(n)], 'f')
        wf, bf = case['fn'], case['other']
        a = call(M, case['mod'], wf, A); b = call(M, case['mod'], bf, A)
        if wf == 'distance_wei':
            D, B = a
            same_outputs(M, D, b, 'ret:distance')
            fin = [[(not isinstance(sc.n_(cell(b, i, j)), float)) for j in range(n)] for i in range(n)]
            for i in range(n):
                for j in range(n):
                    if fin[i][j]: M.oblige('ret:edge_count_equals_hop_distance#%d_%d' % (i, j), sc.eq(sc.n_(cell(B, i, j)), sc.n_(cell(b, i, j))))
        elif wf == 'strengths_dir':
            same_outputs(M, a, b[2], 'ret')          # strengths_dir returns in+out strength; degrees_dir returns (in, out, in+out)
        else:
            same_outputs(M, a, b, 'ret')
        M.result('a', flatten(a))
    elif kind == 'psym':
        weighted = case['weighted']
        vals = [[0.0 if not M.symbolic else 0] * n for _ in range(n)]
        for i in range(n):
            for j in range(i + 1, n):
                if not adj[i][j]: continue
                if weighted:
                    c = M.real('c_%d_%d' % (i, j), lo=0, hi=1, lo_open=True)
                    v = ir.cube(c) if M.symbolic else float(c) ** 3
                else: v = 1 if M.symbolic else 1.0
                vals[i][j] = vals[j][i] = v
        A = M.array(vals, 'f')
        a = call(M, case['mod'], case['fn'], A); b = call(M, case['mod'], case['other'], A)
        if case['fn'] == 'degrees_dir':
            same_outputs(M, a[0], b, 'ret:in_degree'); same_outputs(M, a[1], b, 'ret:out_degree')
        else:
            same_outputs(M, a, b, 'ret')
        M.result('a', flatten(a))
    else:
        vals = [[0.0 if not M.symbolic else 0] * n for _ in range(n)]; ones = [[0.0 if not M.symbolic else 0] * n for _ in range(n)]
        for i in range(n):
            for j in range(n):
                if i == j or not adj[i][j] or (und and j < i): continue
                v = M.real('w_%d_%d' % (i, j), lo=0, hi=8, lo_open=True)
                vals[i][j] = v; ones[i][j] = 1 if M.symbolic else 1.0
                if und: vals[j][i] = v; ones[j][i] = ones[i][j]
        extra = (2,) if case['fn'].startswith('kcore') else ()
        a = call(M, case['mod'], case['fn'], M.array(vals, 'f'), extra)
        b = call(M, case['mod'], case['fn'], M.array(ones, 'f'), extra)
        if case['fn'].startswith('kcore'):
            # the core keeps the caller's weights: compare supports and the reported size
            sa = [sc.truth(x) for x in flatten(a[0])]; sb = [sc.truth(x) for x in flatten(b[0])]
            for t, (x, y) in enumerate(zip(sa, sb)): M.oblige('ret:same_core_support#%d' % t, eq(x, y))
            same_outputs(M, a[1], b[1], 'ret:core_size')
        else:
            same_outputs(M, a, b, 'ret')
        M.result('b', flatten(b))
