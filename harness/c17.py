"""C17 — thresholding and weight conversion keep exactly the documented entries.

All matrix entries, p and thr are symbolic reals (ties, zeros and the .5 rounding boundary are solver cases);
np.argsort of symbolic values is a declarative permutation (every tie order)."""
from fractions import Fraction
import numpy as np
from symx import sc
from harness.common import *

PROPERTY = 'C17'
FUNCTIONS = ['threshold_proportional', 'threshold_absolute', 'binarize', 'normalize', 'invert', 'weight_conversion', 'teachers_round']
ALLOWED_EXCEPTIONS = {}
GUARDS = [dict(note='symmetric_branch', min=1, why='threshold_proportional must take its symmetric branch on some path'),
          dict(note='some_dropped', min=1, why='some path must actually drop connections'), dict(note='all_kept', min=1, why='some path must keep everything present')]
ASSUMPTIONS = ['threshold_proportional: entries >= 0 (documented domain); symmetric case = exactly symmetric input (shared symbols); asymmetric case = some pair differs by >= 1/8 with entries <= 8 (inputs symmetric only within np.allclose tolerance are outside the claim)',
               'np.argsort on symbolic keys is modelled as an arbitrary sorted permutation (over-approximates numpy tie order)']
BOUNDS = {'quick': dict(n='3 (asymmetric, 6 cells + diagonal), 4 symmetric (6 cells)'), 'thorough': dict(n='4 asymmetric')}
OPTS = {'quick': dict(witnesses_per_case=6, budget_s=600), 'thorough': dict(witnesses_per_case=6, budget_s=3000)}
F = Fraction


def cases(tier, seed):
    q = tier != 'thorough'
    cs = []
    for cp in (True, False):
        cs.append(dict(name='threshold_proportional/asym3/copy=%s' % cp, fn='threshold_proportional', kind='tp', n=3, symmetric=False, copy=cp, weight=50, shard_depth=6))
        cs.append(dict(name='threshold_proportional/sym3/copy=%s' % cp, fn='threshold_proportional', kind='tp', n=3, symmetric=True, copy=cp, weight=10))
    cs.append(dict(name='threshold_proportional/sym4/copy=True', fn='threshold_proportional', kind='tp', n=4, symmetric=True, copy=True, weight=80, shard_depth=6))
    if not q:
        cs.append(dict(name='threshold_proportional/asym4sparse/copy=True', fn='threshold_proportional', kind='tp', n=4, symmetric=False, copy=True, weight=500, shard_depth=8,
                       zero_cells=[[0, 3], [3, 0], [1, 3], [2, 0]]))
    cs.append(dict(name='threshold_proportional/bad_p', fn='threshold_proportional', kind='tp_badp', n=3))
    for cp in (True, False):
        cs.append(dict(name='threshold_absolute/n3/copy=%s' % cp, fn='threshold_absolute', kind='ta', n=3, copy=cp))
        for fn in ('binarize', 'normalize', 'invert'):
            cs.append(dict(name='%s/n3/copy=%s' % (fn, cp), fn=fn, kind='util', n=3, copy=cp, cfg=dict(lazy_where=True) if fn == 'invert' else {}))
    for wcm in ('binarize', 'normalize', 'lengths'):
        cs.append(dict(name='weight_conversion/%s' % wcm, fn='weight_conversion', kind='wc', n=3, wcm=wcm, cfg=dict(lazy_where=True) if wcm == 'lengths' else {}))
    cs.append(dict(name='weight_conversion/unknown', fn='weight_conversion', kind='wc', n=3, wcm='nonsense', allowed_exceptions=['NotImplementedError']))
    cs.append(dict(name='invert_twice/n3', fn='invert', kind='inv2', n=3, cfg=dict(lazy_where=True)))
    cs.append(dict(name='teachers_round', fn='teachers_round', kind='round', n=1))
    return cs


def body(case, M):
    return {'tp': body_tp, 'tp_badp': body_badp, 'ta': body_ta, 'util': body_util, 'wc': body_wc, 'inv2': body_inv2, 'round': body_round}[case['kind']](case, M)


def full_matrix(M, n, name='w', lo=None, hi=None, symmetric=False, zero_cells=()):
    vals = [[None] * n for _ in range(n)]
    for a in range(n):
        for b in range(n):
            if [a, b] in [list(z) for z in zero_cells]: vals[a][b] = 0 if M.symbolic else 0.0; continue
            if symmetric and b < a: vals[a][b] = vals[b][a]; continue
            vals[a][b] = M.real('%s_%d_%d' % (name, a, b), lo=lo, hi=hi)
    return vals


def round_half_away(x):
    """oracle for MATLAB-style rounding of a non-negative symbolic real"""
    f = sc.floor(x)
    return sc.ite(sc.ge(sc.sub(x, f), F(1, 2)), sc.add(f, 1), f)


def body_tp(case, M):
    n, symm, cp = case['n'], case['symmetric'], case['copy']
    vals = full_matrix(M, n, lo=0, hi=8, symmetric=symm, zero_cells=case.get('zero_cells', ()))
    p = M.real('p', lo=0, hi=1)
    if not symm:
        M.assume(lor(*[sc.ge(sc.sabs(sc.sub(vals[a][b], vals[b][a])), F(1, 8)) for a in range(n) for b in range(a)]))
    W = M.array(vals, 'f'); W0 = [r[:] for r in vals]
    out = M.mod('other').threshold_proportional(W, p, copy=cp)
    off = [(a, b) for a in range(n) for b in range(n) if a != b]
    cells = off if not symm else [(a, b) for a, b in off if a < b]
    kept = [nz(cell(out, a, b)) for a, b in cells]
    present = [nz(W0[a][b]) for a, b in cells]
    possible = (n * n - n) if not symm else (n * n - n) // 2
    target = round_half_away(sc.mul(p, possible)) if not symm else round_half_away(sc.div(sc.mul(p, n * n - n), 2))
    npres = count(present)
    M.oblige('ret:kept_count', eq(count(kept), sc.ite(sc.le(target, npres), target, npres)))
    for t, (a, b) in enumerate(cells):
        M.oblige('ret:kept_value_unchanged#%d_%d' % (a, b), implies(kept[t], eq(cell(out, a, b), W0[a][b])))
        M.oblige('ret:only_present_kept#%d_%d' % (a, b), implies(kept[t], present[t]))
        for u, (c, d) in enumerate(cells):
            if u == t: continue
            M.oblige('ret:strongest_kept#%d_%d_vs_%d_%d' % (a, b, c, d), implies(land(kept[t], lnot(kept[u]), present[u]), sc.ge(W0[a][b], W0[c][d])))
    for a in range(n): M.oblige('ret:diagonal_cleared#%d' % a, eq(cell(out, a, a), 0))
    if symm:
        M.oblige('ret:symmetric', land(*[eq(cell(out, a, b), cell(out, b, a)) for a in range(n) for b in range(a)]))
        M.note('symmetric_branch')
    check_copy(M, W, W0, out, cp)
    # ties between equal weights may be broken either way: validate the facade on the multiset of kept values
    M.result_sorted('kept_values', [cell(out, a, b) for a in range(n) for b in range(n)])
    if M.symbolic:
        alls = M.truth_value(eq(count(kept), npres))
        M.note('all_kept' if alls else 'some_dropped')


def check_copy(M, W, W0, out, cp):
    n = len(W0)
    if cp:
        M.oblige('ret:copy_true_returns_new_object', out is not W)
        M.oblige('ret:copy_true_argument_untouched', land(*[same(cell(W, a, b), W0[a][b]) for a in range(n) for b in range(n)]))
    else:
        M.oblige('ret:copy_false_returns_argument', out is W)


def same(a, b):
    if a is b: return True
    return sc.eq(a, b)


def body_badp(case, M):
    n = case['n']
    vals = full_matrix(M, n, lo=0, hi=8)
    p = M.real('p', lo=-2, hi=3)
    M.assume(lor(sc.lt(p, 0), sc.gt(p, 1)))
    W = M.array(vals, 'f')
    BCTParamError = M.mod('misc').BCTParamError
    raised = False
    try: M.mod('other').threshold_proportional(W, p)
    except BCTParamError: raised = True
    M.oblige('ret:p_outside_unit_interval_rejected', raised)
    M.result('raised', raised)


def body_ta(case, M):
    n, cp = case['n'], case['copy']
    vals = full_matrix(M, n); thr = M.real('thr')
    W = M.array(vals, 'f'); W0 = [r[:] for r in vals]
    out = M.mod('other').threshold_absolute(W, thr, copy=cp)
    for a in range(n):
        for b in range(n):
            exp = 0 if a == b else sc.ite(sc.ge(W0[a][b], thr), W0[a][b], 0)
            M.oblige('ret:keeps_exactly_offdiag_entries_not_below_thr#%d_%d' % (a, b), eq(cell(out, a, b), exp))
    check_copy(M, W, W0, out, cp)
    M.result('out', out)


def body_util(case, M):
    n, cp, fn = case['n'], case['copy'], case['fn']
    vals = full_matrix(M, n, lo=-8, hi=8)
    W = M.array(vals, 'f'); W0 = [r[:] for r in vals]
    amax = pick_argmax(M, W0, n) if fn == 'normalize' else None
    out = getattr(M.mod('other'), fn)(W, copy=cp)
    check_util(M, fn, W0, out, n, amax=amax)
    check_copy(M, W, W0, out, cp)
    M.result('out', out)


def pick_argmax(M, W0, n):
    """normalize: largest magnitude positive (documented use); the harness forks on which cell attains it so that the
    division by the maximum is a division by one variable"""
    M.assume(lor(*[nz(W0[a][b]) for a in range(n) for b in range(n)]))
    cells = [(a, b) for a in range(n) for b in range(n)]
    for a, b in cells:
        c = land(*[sc.ge(sc.sabs(W0[a][b]), sc.sabs(W0[x][y])) for x, y in cells])
        if M.truth_value(c):
            M.truth_value(sc.gt(W0[a][b], 0)); return (a, b)
    return None


def check_util(M, fn, W0, out, n, tag='ret', amax=None):
    cells = [(a, b) for a in range(n) for b in range(n)]
    if fn == 'binarize':
        for a, b in cells:
            M.oblige('%s:binarize_maps_nonzero_to_one#%d_%d' % (tag, a, b), eq(cell(out, a, b), sc.ite(nz(W0[a][b]), 1, 0)))
    elif fn == 'normalize':
        mx = W0[0][0]; mx = sc.sabs(mx)
        for a, b in cells: mx = sc.smax(mx, sc.sabs(W0[a][b]))
        mx = M.simplify(mx)          # the harness has already forked on which cell attains the maximum
        outs = {(a, b): M.simplify(cell(out, a, b)) for a, b in cells}
        out = [[outs[(a, b)] for b in range(n)] for a in range(n)]
        for a, b in cells:
            M.oblige('%s:normalize_scales_by_largest_magnitude#%d_%d' % (tag, a, b), eq(sc.mul(cell(out, a, b), mx), W0[a][b]))
        # largest magnitude is exactly 1: no cell above 1, and the cell that held the largest magnitude is at 1
        for a, b in cells:
            M.oblige('%s:normalize_largest_magnitude_is_one#le_%d_%d' % (tag, a, b), sc.le(sc.sabs(cell(out, a, b)), 1))
        if amax is not None:
            M.oblige('%s:normalize_largest_magnitude_is_one#attained' % tag, eq(sc.sabs(cell(out, amax[0], amax[1])), 1))
    elif fn == 'invert':
        for a, b in cells:
            M.oblige('%s:invert_support#%d_%d' % (tag, a, b), eq(nz(cell(out, a, b)), nz(W0[a][b])) if M.symbolic else (bool(nz(cell(out, a, b))) == bool(nz(W0[a][b]))))
            M.oblige('%s:invert_is_reciprocal#%d_%d' % (tag, a, b), implies(nz(W0[a][b]), M.close(sc.mul(cell(out, a, b), W0[a][b]), 1, tol=0 if M.symbolic else F(1, 10**9))))


def body_wc(case, M):
    n, wcm = case['n'], case['wcm']
    vals = full_matrix(M, n, lo=-8, hi=8)
    W = M.array(vals, 'f'); W0 = [r[:] for r in vals]
    amax = pick_argmax(M, W0, n) if wcm == 'normalize' else None
    out = M.mod('other').weight_conversion(W, wcm)
    check_util(M, {'binarize': 'binarize', 'normalize': 'normalize', 'lengths': 'invert'}.get(wcm, wcm), W0, out, n, amax=amax)
    check_copy(M, W, W0, out, True)
    out2 = M.mod('other').weight_conversion(W, wcm, copy=False)
    M.oblige('ret:copy_false_returns_argument', out2 is W)
    M.result('out', out)


def body_inv2(case, M):
    n = case['n']
    vals = full_matrix(M, n, lo=-8, hi=8)
    W = M.array(vals, 'f'); W0 = [r[:] for r in vals]
    o = M.mod('other')
    out = o.invert(o.invert(W))
    for a in range(n):
        for b in range(n):
            M.oblige('ret:invert_undoes_itself#%d_%d' % (a, b), M.close(cell(out, a, b), W0[a][b], tol=0 if M.symbolic else F(1, 10**9)))
    M.result('out', out)


def body_round(case, M):
    x = M.real('x', lo=-6, hi=6)
    r = M.mod('misc').teachers_round(x)
    ax = sc.sabs(x); f = sc.floor(ax)
    mag = sc.ite(sc.ge(sc.sub(ax, f), F(1, 2)), sc.add(f, 1), f)
    M.oblige('ret:half_rounds_away_from_zero', eq(r, sc.ite(sc.ge(x, 0), mag, sc.neg(mag))))
    M.result('r', r)
