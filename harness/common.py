"""Mode-agnostic oracle helpers: every function works on IR terms and on plain python/numpy numbers alike."""
import functools, itertools
from fractions import Fraction
import numpy as np
from symx import ir, sc

def nz(x): return sc.ne(x, 0)
def count(conds):
    return functools.reduce(sc.add, [sc.ite(c, 1, 0) if not isinstance(c, (bool, np.bool_)) else int(c) for c in conds], 0)
def ssum(xs): return functools.reduce(sc.add, list(xs), 0)
def land(*xs): return sc.land(*xs)
def lor(*xs): return sc.lor(*xs)
def lnot(x): return sc.lnot(x)
def implies(a, b): return sc.lor(sc.lnot(a), b)
def eq(a, b): return sc.eq(a, b)

def cell(A, i, j):
    """A[i, j] as a scalar for SymArray / ndarray / nested list"""
    if isinstance(A, (list, tuple)): return A[i][j]
    v = A[i, j]
    return v

def snapshot(A):
    """independent copy of the element values of a 2-D array (list of lists)"""
    n, m = A.shape
    P = A.view(np.ndarray) if isinstance(A, np.ndarray) else A
    return [[P[i, j] for j in range(m)] for i in range(n)]

def vec(a):
    P = a.view(np.ndarray) if isinstance(a, np.ndarray) else a
    return [P[t] for t in range(len(P))]

def in_degrees(X, n):  return [count([nz(cell(X, u, v)) for u in range(n)]) for v in range(n)]
def out_degrees(X, n): return [count([nz(cell(X, v, u)) for u in range(n)]) for v in range(n)]

def closure(adj, n):
    """Boolean reflexive-transitive closure by repeated squaring; adj[i][j] Bool terms / bools"""
    R = [[True if i == j else adj[i][j] for j in range(n)] for i in range(n)]
    steps = 1
    while steps < n:
        R = [[lor(*[land(R[i][k], R[k][j]) for k in range(n)]) for j in range(n)] for i in range(n)]
        steps *= 2
    return R

def all_supports_und(n, min_edges=0, max_edges=None):
    pairs = [(i, j) for i in range(n) for j in range(i + 1, n)]
    for m in range(min_edges, (max_edges if max_edges is not None else len(pairs)) + 1):
        for es in itertools.combinations(pairs, m):
            S = [[0] * n for _ in range(n)]
            for i, j in es: S[i][j] = S[j][i] = 1
            yield S

def all_supports_dir(n, min_edges=0, max_edges=None):
    pairs = [(i, j) for i in range(n) for j in range(n) if i != j]
    for m in range(min_edges, (max_edges if max_edges is not None else len(pairs)) + 1):
        for es in itertools.combinations(pairs, m):
            S = [[0] * n for _ in range(n)]
            for i, j in es: S[i][j] = 1
            yield S

def has_disjoint_pair_und(S):
    n = len(S); E = [(i, j) for i in range(n) for j in range(i + 1, n) if S[i][j]]
    return any(len({a, b, c, d}) == 4 for (a, b), (c, d) in itertools.combinations(E, 2))
def has_disjoint_pair_dir(S):
    n = len(S); E = [(i, j) for i in range(n) for j in range(n) if S[i][j]]
    return any(len({a, b, c, d}) == 4 for (a, b), (c, d) in itertools.combinations(E, 2))

def connected_und(S):
    n = len(S); seen = {0}; st = [0]
    while st:
        u = st.pop()
        for v in range(n):
            if (S[u][v] or S[v][u]) and v not in seen: seen.add(v); st.append(v)
    return len(seen) == n
def strongly_connected(S):
    n = len(S)
    def reach(s, T):
        seen = {s}; st = [s]
        while st:
            u = st.pop()
            for v in range(n):
                if T(u, v) and v not in seen: seen.add(v); st.append(v)
        return len(seen) == n
    return reach(0, lambda u, v: S[u][v]) and reach(0, lambda u, v: S[v][u])

def canon_und(S):
    """canonical form under node relabelling (n <= 5: brute force)"""
    n = len(S); best = None
    for p in itertools.permutations(range(n)):
        key = tuple(S[p[i]][p[j]] for i in range(n) for j in range(n))
        if best is None or key < best: best = key
    return best

def supname(S): return ''.join(''.join(str(int(bool(x))) for x in row) for row in S)
