"""C20 — synthetic generators deliver the requested size, edge count and symmetry.

All random draws are symbolic (permutations of cell indices, uniform matrices); K is a symbolic Int over its feasible
range where the code's control flow allows it; N and structural parameters are enumerated."""
from fractions import Fraction
import numpy as np
from symx import sc
from harness.common import *

PROPERTY = 'C20'
FUNCTIONS = ['makerandCIJ_und', 'makerandCIJ_dir', 'makeringlatticeCIJ', 'maketoeplitzCIJ', 'makeevenCIJ', 'makefractalCIJ', 'makerandCIJdegreesfixed']
ALLOWED_EXCEPTIONS = {'makerandCIJdegreesfixed': ('BCTParamError',), 'maketoeplitzCIJ': ('BCTParamError',)}
GUARDS = []
ASSUMPTIONS = ['every RandomState draw is a fresh symbolic value in range (permutations: pairwise distinct)', 'K is symbolic over 0..max (forked where the code slices with it)',
               'maketoeplitzCIJ: at most 2 rejection rounds are explored (draw budget)']
BOUNDS = {'quick': dict(N='3..5 (4 for the hierarchical generators)'), 'thorough': dict(N='3..6, 8 for the hierarchical generators')}
OPTS = {'quick': dict(witnesses_per_case=4, budget_s=600), 'thorough': dict(witnesses_per_case=4, budget_s=3000)}


def cases(tier, seed):
    q = tier != 'thorough'
    cs = []
    for n in ((3, 4) if q else (3, 4, 5)):
        cs.append(dict(name='makerandCIJ_und/n%d' % n, fn='makerandCIJ_und', kind='rand', n=n, directed=False, weight=2 ** n, **(dict(khi=3) if n >= 5 else {})))
        if n <= 3: cs.append(dict(name='makerandCIJ_dir/n%d' % n, fn='makerandCIJ_dir', kind='rand', n=n, directed=True, weight=2 ** n))
        else:
            # 12+ cells: "K distinct cells" is a pigeonhole argument; keep K small (or nearly full) so z3 can finish
            cs.append(dict(name='makerandCIJ_dir/n%d/k0-3' % n, fn='makerandCIJ_dir', kind='rand', n=n, directed=True, khi=3, weight=2 ** n))
    cs.append(dict(name='makeringlatticeCIJ/n4', fn='makeringlatticeCIJ', kind='ring', n=4, weight=50))
    # larger rings: "the removed cells are distinct" is a pigeonhole argument over the permutation; K is kept within 2 of a full band
    for n in ((5, 6) if q else (5, 6, 7, 8)):
        full = [2 * n * d if 2 * d != n else 2 * n * d - n for d in range(1, n // 2 + 1)]
        for f in full:
            cs.append(dict(name='makeringlatticeCIJ/n%d/K%d-%d' % (n, f - 2, f), fn='makeringlatticeCIJ', kind='ring', n=n, klo=f - 2, khi=f, weight=20 * n))
    for n, s in (((4, 1),) if q else ((4, 1), (4, 2), (5, 1))):
        for k in ((2, 4) if q else (1, 2, 4, 6)):
            cs.append(dict(name='maketoeplitzCIJ/n%d/k%d/s%s' % (n, k, s), fn='maketoeplitzCIJ', kind='toep', n=n, k=k, s=s, weight=20))
    for n, szs in (((4, (1, 2)),) if q else ((4, (1, 2)), (8, (1, 2, 3)))):
        for sz in szs:
            cs.append(dict(name='makeevenCIJ/n%d/sz%d' % (n, sz), fn='makeevenCIJ', kind='even', n=n, sz=sz, weight=10 * n))
            if n <= 4:     # 64 symbolic uniforms at n = 8: the count identity is beyond z3 (unknown, measured)
                cs.append(dict(name='makefractalCIJ/n%d/sz%d' % (n, sz), fn='makefractalCIJ', kind='fractal', n=n, sz=sz, E=2, weight=10 * n))
    for inv, outv in (([1, 1, 1, 0], [1, 0, 1, 1]), ([1, 1], [1, 1]), ([1, 1, 1], [1, 1, 1]), ([2, 1, 0], [1, 1, 1]), ([2, 1, 1], [1, 2, 1])) + ((([2, 2, 2], [2, 2, 2]),) if not q else ()):
        cs.append(dict(name='makerandCIJdegreesfixed/%s/%s' % (''.join(map(str, inv)), ''.join(map(str, outv))), fn='makerandCIJdegreesfixed', kind='degfix', inv=inv, outv=outv, weight=30 * sum(inv) ** 2, shard_depth=6,
                       path_cap=(150 if (q and sum(inv) >= 4) else None)))   # 4 stubs: ~100k paths; quick explores 150 per shard (stated bound)
    return cs


def body(case, M):
    return {'rand': body_rand, 'ring': body_ring, 'toep': body_toep, 'even': body_even, 'fractal': body_fractal, 'degfix': body_degfix}[case['kind']](case, M)


def basic(M, X, n, tag='ret', diag=True):
    P = X.view(np.ndarray) if isinstance(X, np.ndarray) else X
    M.oblige('%s:shape_is_NxN' % tag, tuple(np.shape(P)) == (n, n))
    if tuple(np.shape(P)) != (n, n): return False
    M.oblige('%s:binary_values' % tag, land(*[lor(eq(cell(X, a, b), 0), eq(cell(X, a, b), 1)) for a in range(n) for b in range(n)]))
    if diag: M.oblige('%s:empty_diagonal' % tag, land(*[eq(cell(X, a, a), 0) for a in range(n)]))
    return True


def ones(X, n, cells=None):
    return count([nz(cell(X, a, b)) for a, b in (cells or [(a, b) for a in range(n) for b in range(n)])])


def body_rand(case, M):
    n, directed = case['n'], case['directed']
    kmax = n * (n - 1) if directed else n * (n - 1) // 2
    k = M.integer('k', lo=case.get('klo', 0), hi=min(kmax, case.get('khi', kmax)))
    rng = M.rng(budget=4)
    X = getattr(M.mod('reference'), case['fn'])(n, k, seed=rng)
    if not basic(M, X, n): return
    if directed:
        M.oblige('ret:exactly_K_connections', eq(ones(X, n), k))
    else:
        M.oblige('ret:symmetric', land(*[eq(cell(X, a, b), cell(X, b, a)) for a in range(n) for b in range(a)]))
        M.oblige('ret:exactly_K_connections', eq(ones(X, n, [(a, b) for a in range(n) for b in range(a + 1, n)]), k))
    M.result('X', X)


def body_ring(case, M):
    n = case['n']
    k = M.integer('k', lo=case.get('klo', 1), hi=case.get('khi', n * (n - 1)))
    rng = M.rng(budget=4)
    X = M.mod('reference').makeringlatticeCIJ(n, k, seed=rng)
    if not basic(M, X, n): return
    M.oblige('ret:exactly_K_connections', eq(ones(X, n), k))
    band = lambda a, b: min(abs(a - b), n - abs(a - b))
    nb = n // 2
    used = {d: lor(*[nz(cell(X, a, b)) for a in range(n) for b in range(n) if a != b and band(a, b) == d]) for d in range(1, nb + 1)}
    full = {d: land(*[nz(cell(X, a, b)) for a in range(n) for b in range(n) if a != b and band(a, b) == d]) for d in range(1, nb + 1)}
    for d in range(2, nb + 1):
        M.oblige('ret:nearer_band_full_before_farther_used#%d' % d, implies(used[d], full[d - 1]))
    M.result('X', X)


def body_toep(case, M):
    n, k, s = case['n'], case['k'], case['s']
    rng = M.rng(budget=2)
    X = M.mod('reference').maketoeplitzCIJ(n, k, s, seed=rng)
    if not basic(M, X, n): return
    M.oblige('ret:exactly_K_connections', eq(ones(X, n), k))
    M.note('no_witness')      # strict < against a float template: the model's draws sit on rounding boundaries


def body_even(case, M):
    n, sz = case['n'], case['sz']
    import math
    # feasible K: at least the cluster connections
    kmin = n * (2 ** sz - 1)          # connections inside the clusters of 2**sz_cl nodes; smaller K is documented as infeasible
    k = M.integer('k', lo=kmin, hi=n * (n - 1))
    rng = M.rng(budget=4)
    X = M.mod('reference').makeevenCIJ(n, k, sz, seed=rng)
    if not basic(M, X, n): return
    M.oblige('ret:exactly_K_connections', eq(ones(X, n), k))
    M.result('X', X)


def body_fractal(case, M):
    n, sz, E = case['n'], case['sz'], case['E']
    mx = {4: 2, 8: 3}[n]
    rng = M.rng(budget=4)
    X, k = M.mod('reference').makefractalCIJ(mx, E, sz, seed=rng)
    if not basic(M, X, n): return
    M.oblige('ret:reported_count_is_connection_count', eq(ones(X, n), k))
    M.note('no_witness')


def body_degfix(case, M):
    inv, outv = case['inv'], case['outv']; n = len(inv)
    rng = M.rng(budget=12)
    BCTParamError = M.mod('misc').BCTParamError
    try:
        X = M.mod('reference').makerandCIJdegreesfixed(M.array(inv, 'i'), M.array(outv, 'i'), seed=rng)
    except BCTParamError:
        M.note('gave_up'); return
    if not basic(M, X, n): return
    for v in range(n):
        M.oblige('ret:in_degree#%d' % v, eq(count([nz(cell(X, u, v)) for u in range(n)]), inv[v]))
        M.oblige('ret:out_degree#%d' % v, eq(count([nz(cell(X, v, u)) for u in range(n)]), outv[v]))
    M.result('X', X)
