"""C01 — degree-preserving rewiring keeps every node's degree and the weight multiset.

Real functions executed symbolically: randmio_und/_dir(_connected), latmio_und/_dir(_connected),
randomize_graph_partial_und, randomizer_bin_und (bct/algorithms/reference.py).
Symbolic: a non-zero real weight per support cell, every randint/random_sample draw, alpha, the mask B.
Enumerated: support patterns, iteration count, the node permutation drawn by the latticisers (forked).
"""
import itertools
from fractions import Fraction
import numpy as np
from symx import sc
from harness.common import *

PROPERTY = 'C01'
FUNCTIONS = ['randmio_und', 'randmio_dir', 'randmio_und_connected', 'randmio_dir_connected', 'latmio_und', 'latmio_dir',
             'latmio_und_connected', 'latmio_dir_connected', 'randomize_graph_partial_und', 'randomizer_bin_und', 'get_rng',
             'number_of_components', 'binarize']
ALLOWED_EXCEPTIONS = {'randomizer_bin_und': ('BCTParamError',), 'randmio_und_connected': ('BCTParamError',),
                      'latmio_und_connected': ('BCTParamError',)}
GUARDS = [dict(note='swap_accepted:' + f, min=1, why='some explored path of %s must accept at least one swap' % f)
          for f in ('randmio_und', 'randmio_dir', 'randmio_und_connected', 'randmio_dir_connected', 'latmio_und', 'latmio_dir',
                    'latmio_und_connected', 'randomize_graph_partial_und', 'randomizer_bin_und')] + \
         [dict(note='swap_accepted:latmio_dir_connected', min=1, tier='thorough', why='latmio_dir_connected must accept a swap on some path'),
          dict(note='no_swap', min=1, why='some explored path must reject all its attempts')]
ASSUMPTIONS = ['weights are arbitrary non-zero reals (symmetric for the undirected routines); binary input is the special case w = 1',
               'iteration count m is enumerated through itr = (m + 1/2)/k; the node permutation of the latticisers is forked (all n! orders)',
               'a path that needs more random draws than the draw budget is pruned (outside the claim)']
BOUNDS = {'quick': dict(n=4, iterations='1..2 (randmio), k (latmio, itr=1)', draw_budget='see cases'),
          'thorough': dict(n='4..5', iterations='1..3')}
OPTS = {'quick': dict(witnesses_per_case=2, budget_s=400), 'thorough': dict(witnesses_per_case=3, budget_s=3000)}

UND = ('randmio_und', 'randmio_und_connected', 'latmio_und', 'latmio_und_connected', 'randomize_graph_partial_und')


def und_from_edges(n, es):
    S = [[0] * n for _ in range(n)]
    for i, j in es: S[i][j] = S[j][i] = 1
    return S
def dir_from_arcs(n, es):
    S = [[0] * n for _ in range(n)]
    for i, j in es: S[i][j] = 1
    return S

U4 = {'2K2': [(0, 1), (2, 3)], '2K2b': [(0, 2), (1, 3)], 'P4': [(0, 1), (1, 2), (2, 3)], 'P4b': [(1, 3), (3, 0), (0, 2)],
      'paw': [(0, 1), (1, 2), (0, 2), (2, 3)], 'C4': [(0, 1), (1, 2), (2, 3), (3, 0)], 'diamond': [(0, 1), (1, 2), (2, 3), (3, 0), (0, 2)]}
D4 = {'2arcs': [(0, 1), (2, 3)], '3arcs_fan': [(0, 1), (0, 2), (2, 3)], '3arcs_chain': [(0, 1), (2, 3), (3, 0)],
      'recip2': [(0, 1), (1, 0), (2, 3), (3, 2)], 'ring4': [(0, 1), (1, 2), (2, 3), (3, 0)], '3arcs_in': [(1, 0), (2, 0), (3, 2)],
      'ring4_chord': [(0, 1), (1, 2), (2, 3), (3, 0), (0, 2)],
      'sc5': [(0, 1), (0, 2), (1, 0), (2, 3), (3, 0)], 'sc5b': [(0, 1), (0, 2), (1, 3), (2, 3), (3, 0)],
      'sc5c': [(0, 1), (0, 2), (1, 2), (2, 3), (3, 0)], 'sc5d': [(0, 1), (0, 2), (1, 0), (2, 3), (3, 1)]}
U5 = {'P3+K2': [(0, 1), (1, 2), (3, 4)], 'P5': [(0, 1), (1, 2), (2, 3), (3, 4)], 'C5': [(0, 1), (1, 2), (2, 3), (3, 4), (4, 0)],
      'bull': [(0, 1), (1, 2), (0, 2), (1, 3), (2, 4)]}


def _attempts(fn, n, k):
    """attempts per iteration = max_attempts + 1, as computed by the routine itself"""
    from fractions import Fraction as F
    if fn in ('latmio_und', 'latmio_und_connected'): x = F(n * k, 1) / F(n * (n - 1), 2)
    else: x = F(n * k, n * (n - 1))
    return int(round(x)) + 1          # python round on Fraction = numpy round (half to even)


CALLS = {'randmio_und': 2, 'randmio_und_connected': 3, 'randmio_dir': 2, 'randmio_dir_connected': 2, 'latmio_und': 3, 'latmio_und_connected': 3,
         'latmio_dir': 2, 'latmio_dir_connected': 2, 'randomize_graph_partial_und': 2}


def _draws(fn, n, k, m, slack):
    """budget in RandomState calls: every attempt the routine can make (bounded by its own max_attempts) plus one re-draw per attempt"""
    return m * _attempts(fn, n, k) * (CALLS[fn] + 1) + slack + (1 if fn.startswith('latmio') else 0)


def _perms(n, seed, count):
    import random
    allp = list(itertools.permutations(range(n)))
    base = [tuple(range(n)), tuple(list(range(1, n)) + [0]), (1, 2, 0) + tuple(range(3, n))]
    rnd = random.Random(seed); rest = [p for p in allp if p not in base]; rnd.shuffle(rest)
    return [list(p) for p in (base + rest)[:count]]


def cases(tier, seed):
    cs = []
    q = tier != 'thorough'
    def add(**k):
        k.setdefault('name', '%s/%s/m%s' % (k['fn'], k.get('sup', ''), k.get('iters', '')))
        if 'support' in k and 'draws' not in k:
            S = k['support']; n = k['n']; ne = sum(map(sum, S)) // (2 if k['fn'] in UND else 1)
            m = k['iters'] if not k['fn'].startswith('latmio') else k['iters'] * ne
            k['draws'] = _draws(k['fn'], n, ne, m, k.pop('slack', 1))
        cs.append(k)
    # ---- plain and connected randomisers
    for fn in ('randmio_und', 'randmio_und_connected'):
        plan = [('2K2', 1), ('2K2', 2), ('P4', 1), ('P4b', 1), ('C4', 1), ('paw', 1)] if q else \
               [(s, m) for s in U4 for m in (1, 2)] + [('2K2', 3), ('P4', 3)]
        for s, m in plan:
            S = und_from_edges(4, U4[s])
            if 'connected' in fn and not connected_und(S): continue
            add(fn=fn, kind='randmio', n=4, sup=s, support=S, iters=m, weight=3 ** m * len(U4[s]), slack=0,
                shard_depth=(8 if m >= 2 and len(U4[s]) >= 3 else None))
        add(fn=fn, kind='randmio', n=4, sup='P4', support=und_from_edges(4, U4['P4']), iters=0, draws=2, name=fn + '/P4/zero-budget')
    for fn in ('randmio_dir', 'randmio_dir_connected'):
        plan = [('2arcs', 1), ('2arcs', 2), ('3arcs_fan', 1), ('3arcs_fan', 2), ('3arcs_chain', 1), ('recip2', 1), ('ring4', 1), ('3arcs_in', 1), ('sc5', 1), ('sc5b', 1), ('sc5c', 1), ('sc5d', 1)] if q else \
               [(s, m) for s in D4 for m in (1, 2)] + [('2arcs', 3), ('3arcs_fan', 3)]
        for s, m in plan:
            S = dir_from_arcs(4, D4[s])
            if 'connected' in fn and not strongly_connected(S): continue
            add(fn=fn, kind='randmio', n=4, sup=s, support=S, iters=m, weight=3 ** m * len(D4[s]), slack=0,
                shard_depth=(8 if m >= 2 and len(D4[s]) >= 3 else None))
        add(fn=fn, kind='randmio', n=4, sup='ring4', support=dir_from_arcs(4, D4['ring4']), iters=0, draws=4, name=fn + '/ring4/zero-budget')
    if not q:
        for s in U5:
            for m in (1, 2):
                add(fn='randmio_und', kind='randmio', n=5, sup=s, support=und_from_edges(5, U5[s]), iters=m, weight=60 * m, shard_depth=8)
        add(fn='randmio_und_connected', kind='randmio', n=5, sup='P5', support=und_from_edges(5, U5['P5']), iters=1, weight=60, shard_depth=8)
        add(fn='randmio_und_connected', kind='randmio', n=5, sup='C5', support=und_from_edges(5, U5['C5']), iters=1, weight=60, shard_depth=8)
    # ---- latticisers (itr=1 -> k iterations); node orders: a seeded subset in quick, all n! in thorough
    np_ = 4 if q else 24
    for fn in ('latmio_und', 'latmio_und_connected'):
        for s in (['2K2', 'P4'] if q else ['2K2', 'P4', 'C4', 'paw']):
            S = und_from_edges(4, U4[s])
            if 'connected' in fn and not connected_und(S): continue
            if q and s == 'P4' and fn == 'latmio_und': continue
            for t, p in enumerate(_perms(4, seed, np_ if s == '2K2' else (2 if q else 8))):
                extra = dict(draws=1 + 4 * 3, fork_int=True, shard_depth=24) if (q and len(U4[s]) >= 3) else dict(shard_depth=10 if len(U4[s]) >= 3 else None, fork_int=len(U4[s]) >= 3)
                add(fn=fn, kind='latmio', n=4, sup=s, support=S, iters=1, weight=40 * len(U4[s]), perm=p, name='%s/%s/perm%s' % (fn, s, ''.join(map(str, p))), **extra)
    for fn in ('latmio_dir', 'latmio_dir_connected'):
        for s in (['2arcs', 'ring4'] if q else ['2arcs', '3arcs_fan', 'ring4', 'recip2']):
            S = dir_from_arcs(4, D4[s])
            if 'connected' in fn and not strongly_connected(S): continue
            if q and s == 'ring4':
                if fn == 'latmio_dir_connected':
                    add(fn=fn, kind='latmio', n=4, sup=s, support=S, iters=0, draws=2, perm=[1, 3, 0, 2], name=fn + '/ring4/zero-budget')
                continue
            for t, p in enumerate(_perms(4, seed, np_ if s == '2arcs' else (2 if q else 8)) if not (q and s == 'ring4') else [[0, 2, 1, 3], [1, 3, 0, 2]]):
                extra = dict(draws=1 + 3 * 6, fork_int=True, shard_depth=10) if (q and len(D4[s]) >= 3) else dict(shard_depth=10 if len(D4[s]) >= 3 else None, fork_int=len(D4[s]) >= 3)
                add(fn=fn, kind='latmio', n=4, sup=s, support=S, iters=1, weight=40 * len(D4[s]), perm=p, name='%s/%s/perm%s' % (fn, s, ''.join(map(str, p))), **extra)
    # ---- partial randomisation with a mask
    for s, ms in ([('2K2', 0), ('2K2', 1), ('2K2', 2), ('P4', 0), ('P4', 1)] if q else [(s, ms) for s in ('2K2', 'P4', 'C4', 'paw') for ms in (0, 1, 2)]):
        S = und_from_edges(4, U4[s])
        add(fn='randomize_graph_partial_und', kind='partial', n=4, sup=s, support=S, iters=ms, draws=3 * ms + (2 if len(U4[s]) <= 3 else 5), weight=5 * 4 ** ms,
            shard_depth=8 if ms >= 2 else None)
    # ---- randomizer_bin_und: every labelled graph on 4 nodes, and a seeded sample of 5-node graphs
    for S in all_supports_und(4):
        add(fn='randomizer_bin_und', kind='binrand', n=4, sup=supname(S), support=S, draws=20, name='randomizer_bin_und/n4/' + supname(S))
    import random
    rnd = random.Random(seed)
    g5 = list(all_supports_und(5, 2, 8))
    for S in (rnd.sample(g5, 24) if q else rnd.sample(g5, 300)):
        add(fn='randomizer_bin_und', kind='binrand', n=5, sup=supname(S), support=S, draws=24, name='randomizer_bin_und/n5/' + supname(S))
    # a single fully connected node (set aside before rewiring, restored afterwards) next to a rewirable remainder needs 5 nodes:
    # hub h + one more connection, for every h (index 0 included); 6 nodes: hub + two connections and its complement (the routine rewires the complement)
    for h in range(5):
        o = [v for v in range(5) if v != h]
        S = und_from_edges(5, [(h, v) for v in o] + [(o[0], o[1])])
        add(fn='randomizer_bin_und', kind='binrand', n=5, sup='hub%d' % h, support=S, draws=24, name='randomizer_bin_und/n5/hub%d' % h)
    if True:
        for h in (0, 3, 5):
            o = [v for v in range(6) if v != h]
            E = [(h, v) for v in o] + [(o[0], o[1]), (o[2], o[3])]
            S = und_from_edges(6, E)
            add(fn='randomizer_bin_und', kind='binrand', n=6, sup='hub%d' % h, support=S, draws=24, name='randomizer_bin_und/n6/hub%d' % h)
            C = [[int(a != b and not S[a][b]) for b in range(6)] for a in range(6)]
            add(fn='randomizer_bin_und', kind='binrand', n=6, sup='cohub%d' % h, support=C, draws=24, name='randomizer_bin_und/n6/cohub%d' % h)
    return cs


# ------------------------------------------------------------------------------------------------ oracles
def check_final(M, W0, X, n, directed, tag='ret'):
    din0, dout0 = in_degrees(W0, n), out_degrees(W0, n)
    din, dout = in_degrees(X, n), out_degrees(X, n)
    for v in range(n):
        M.oblige('%s:in_degree#%d' % (tag, v), eq(din[v], din0[v]))
        M.oblige('%s:out_degree#%d' % (tag, v), eq(dout[v], dout0[v]))
        M.oblige('%s:no_new_selfloop#%d' % (tag, v), implies(lnot(nz(W0[v][v])), lnot(nz(cell(X, v, v)))))
        if directed:
            M.oblige('%s:out_strength#%d' % (tag, v), eq(ssum(cell(X, v, u) for u in range(n)), ssum(W0[v][u] for u in range(n))))
    if not directed:
        M.oblige('%s:symmetric' % tag, land(*[eq(cell(X, u, v), cell(X, v, u)) for u in range(n) for v in range(u)]))
    cells = [(u, v) for u in range(n) for v in range(n)]
    for (u, v) in cells:
        w = W0[u][v]
        if isinstance(w, (int, float)) and w == 0: continue
        if not directed and u > v: continue
        M.oblige('%s:weight_multiset#%d_%d' % (tag, u, v), eq(count([eq(cell(X, a, b), w) for a, b in cells]), count([eq(W0[a][b], w) for a, b in cells])))
    M.oblige('%s:weight_multiset#nnz' % tag, eq(count([nz(cell(X, a, b)) for a, b in cells]), count([nz(W0[a][b]) for a, b in cells])))


def check_swap_state(M, st, W0, n, directed, tag):
    R, i, j = st['R'], st['i'], st['j']
    k = len(i)
    ends = [(i[e], j[e]) for e in range(k)]
    for e, (a, b) in enumerate(ends):
        M.oblige('%s:edge_list_names_present_edge#%d' % (tag, e), nz(R[a, b]))
    for e in range(k):
        for f in range(e):
            (a, b), (c, d) = ends[e], ends[f]
            same = land(eq(a, c), eq(b, d))
            if not directed: same = lor(same, land(eq(a, d), eq(b, c)))
            M.oblige('%s:edge_list_distinct#%d_%d' % (tag, e, f), lnot(same))
    din0, dout0 = in_degrees(W0, n), out_degrees(W0, n)
    din, dout = in_degrees(R, n), out_degrees(R, n)
    for v in range(n):
        M.oblige('%s:in_degree#%d' % (tag, v), eq(din[v], din0[v]))
        M.oblige('%s:out_degree#%d' % (tag, v), eq(dout[v], dout0[v]))


def sym_weights(M, n, sup, directed, name='w', lo=None):
    vals = [[0] * n for _ in range(n)]
    for a in range(n):
        for b in range(n):
            if a == b or not sup[a][b]: continue
            if directed: vals[a][b] = M.real('%s_%d_%d' % (name, a, b), nonzero=True, lo=lo)
            elif a < b: vals[a][b] = vals[b][a] = M.real('%s_%d_%d' % (name, a, b), nonzero=True, lo=lo)
    return vals


def body(case, M):
    kind = case['kind']
    return {'randmio': body_randmio, 'latmio': body_latmio, 'partial': body_partial, 'binrand': body_binrand}[kind](case, M)


def _itr(M, m, k):
    return Fraction(2 * m + 1, 2 * k) if M.symbolic else (m + 0.5) / k


def body_randmio(case, M, extra=None):
    fn, n, sup = case['fn'], case['n'], case['support']; directed = fn not in UND
    vals = sym_weights(M, n, sup, directed)
    W = M.array(vals, 'f'); W0 = [row[:] for row in vals]
    k = sum(1 for a in range(n) for b in range(n) if sup[a][b]) // (1 if directed else 2)
    m = case['iters']
    rng = M.rng(budget=case['draws'], fork_int=case.get('fork_int', False))
    ns = [0]
    def hook(event, **st):
        if event == 'swap' and st.get('fn') == fn:
            ns[0] += 1
            check_swap_state(M, st, W0, n, directed, 'swap%d' % ns[0])
            if extra: extra('swap', M, st, W0, ns[0])
    M.set_hook(hook)
    try:
        R, eff = getattr(M.mod('reference'), fn)(W, _itr(M, m, k) if m else 0, seed=rng)
    finally:
        M.set_hook(None)
    check_final(M, W0, R, n, directed)
    M.oblige('ret:eff_counts_swaps', eq(eff, ns[0]))
    if ns[0] == 0:
        M.oblige('ret:unchanged_when_no_swap', land(*[eq(cell(R, a, b), W0[a][b]) for a in range(n) for b in range(n)]))
    if extra: extra('ret', M, dict(R=R, eff=eff), W0, ns[0])
    M.result('R', R); M.result('eff', eff)
    M.note(('swap_accepted:' + fn) if ns[0] else 'no_swap')


def body_latmio(case, M, extra=None):
    fn, n, sup = case['fn'], case['n'], case['support']; directed = fn not in UND
    vals = sym_weights(M, n, sup, directed)
    W = M.array(vals, 'f'); W0 = [row[:] for row in vals]
    rng = M.rng(budget=case['draws'], fork_perm=True, perm_subset=[case['perm']] if case.get('perm') else None, fork_int=case.get('fork_int', False))
    ns = [0]
    D = extra('D', M, None, W0, 0) if extra else None
    def hook(event, **st):
        if event == 'swap' and st.get('fn') == fn:
            ns[0] += 1
            # inside the latticiser the matrix is in latticisation order: compare with the permuted input
            if extra: extra('swap', M, st, W0, ns[0])
    M.set_hook(hook)
    try:
        Rlatt, Rrp, ind_rp, eff = getattr(M.mod('reference'), fn)(W, case['iters'], D=D, seed=rng)
    finally:
        M.set_hook(None)
    check_final(M, W0, Rlatt, n, directed)
    p = [M.int_value(v) for v in vec(ind_rp)]
    M.oblige('ret:ordering_is_permutation', sorted(p) == list(range(n)))
    for x in range(n):
        for y in range(n):
            M.oblige('ret:latticised_order_is_reindexed_result#%d_%d' % (x, y), eq(cell(Rrp, x, y), cell(Rlatt, p[x], p[y])))
    M.oblige('ret:eff_counts_swaps', eq(eff, ns[0]))
    if ns[0] == 0:
        M.oblige('ret:unchanged_when_no_swap', land(*[eq(cell(Rlatt, a, b), W0[a][b]) for a in range(n) for b in range(n)]))
    if extra: extra('ret', M, dict(Rlatt=Rlatt, Rrp=Rrp, p=p, eff=eff, D=D), W0, ns[0])
    M.result('Rlatt', Rlatt); M.result('Rrp', Rrp); M.result('eff', eff)
    M.note(('swap_accepted:' + fn) if ns[0] else 'no_swap')


def body_partial(case, M, extra=None):
    fn, n, sup = case['fn'], case['n'], case['support']
    vals = sym_weights(M, n, sup, False)
    A = M.array(vals, 'f'); W0 = [row[:] for row in vals]
    # the mask of an undirected graph is symmetric (documented domain); its diagonal is free
    bm = [[None] * n for _ in range(n)]
    for a in range(n):
        for b in range(a, n):
            bm[a][b] = bm[b][a] = M.boolean('b_%d_%d' % (a, b))
    B = M.array([[sc.ite(bm[a][b], 1, 0) if M.symbolic else float(bm[a][b]) for b in range(n)] for a in range(n)], 'f')
    rng = M.rng(budget=case['draws'])
    ns = [0]
    def hook(event, **st):
        if event == 'swap' and st.get('fn') == fn:
            ns[0] += 1
            check_swap_state(M, st, W0, n, False, 'swap%d' % ns[0])
    M.set_hook(hook)
    try:
        X = M.mod('reference').randomize_graph_partial_und(A, B, case['iters'], seed=rng)
    finally:
        M.set_hook(None)
    check_final(M, W0, X, n, False)
    M.oblige('ret:performs_requested_swaps', ns[0] == case['iters'])
    if case['iters'] == 0:
        M.oblige('ret:unchanged_when_no_swap', land(*[eq(cell(X, a, b), W0[a][b]) for a in range(n) for b in range(n)]))
    if extra: extra('ret', M, dict(X=X, bm=bm), W0, ns[0])
    M.result('X', X)
    M.note(('swap_accepted:' + fn) if ns[0] else 'no_swap')


def body_binrand(case, M):
    n, sup = case['n'], case['support']
    R0 = [[float(sup[a][b]) for b in range(n)] for a in range(n)]
    R = M.array(R0, 'f')
    alpha = M.real('alpha', lo=0, hi=1)
    rng = M.rng(budget=case['draws'])
    X = M.mod('reference').randomizer_bin_und(R, alpha, seed=rng)
    for v in range(n):
        M.oblige('ret:degree#%d' % v, eq(count([nz(cell(X, u, v)) for u in range(n)]), sum(sup[u][v] for u in range(n))))
        M.oblige('ret:no_new_selfloop#%d' % v, lnot(nz(cell(X, v, v))))
    M.oblige('ret:symmetric', land(*[eq(cell(X, u, v), cell(X, v, u)) for u in range(n) for v in range(u)]))
    M.oblige('ret:binary', land(*[lor(eq(cell(X, u, v), 0), eq(cell(X, u, v), 1)) for u in range(n) for v in range(n)]))
    changed = lor(*[lnot(eq(cell(X, u, v), sup[u][v])) for u in range(n) for v in range(n)])
    M.result('X', X)
    if M.symbolic:
        M.note('swap_accepted:randomizer_bin_und' if M.truth_value(changed) else 'no_swap')
