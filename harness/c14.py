"""C14 — partition-consuming functions depend on the partition, not on label values.

For every set partition of the node set, the function is run twice in one exploration, with two different injective
labelings (contiguous 1..k, and non-contiguous / zero-based / reordered), on the same symbolic weights; the outputs must be
equal.  Functions that take logarithms or square roots of data run on enumerated concrete matrices (labels still varied)."""
import itertools
from fractions import Fraction
import numpy as np
from symx import sc, ir
from harness.common import *
from harness.c02 import set_partitions

PROPERTY = 'C14'
FUNCTIONS = ['participation_coef', 'participation_coef_sign', 'module_degree_zscore', 'diversity_coef_sign', 'gateway_coef_sign', 'modularity_und', 'modularity_dir',
             'modularity_und_sign', 'partition_distance', 'ci2ls', 'ls2ci']
ALLOWED_EXCEPTIONS = {}
GUARDS = [dict(note='several_modules', min=1, why='some explored partition must have more than one module')]
ASSUMPTIONS = ['all set partitions of 3 and 4 nodes; relabelings: k..1 reversed, 7p+3 (non-contiguous), zero-based, large sparse values',
               'weights symbolic for participation_coef and the modularity evaluators; concrete matrices for participation_coef_sign (z3 answers unknown on the signed ratio), module_degree_zscore, diversity_coef_sign, gateway_coef_sign (sqrt / log of data)',
               'partition_distance, ci2ls, ls2ci involve no real-valued input: every pair of partitions of 4 nodes is enumerated (the solver has nothing to quantify over there)',
               'agreement is not encoded (scipy.sparse)']
BOUNDS = {'quick': dict(n='3..4'), 'thorough': dict(n='4..5')}
OPTS = {'quick': dict(witnesses_per_case=1, budget_s=300), 'thorough': dict(witnesses_per_case=1, budget_s=2000)}
F = Fraction
RELABEL = {'rev': lambda p, k: k - p, '7p3': lambda p, k: 7 * p + 3, 'zero': lambda p, k: p, 'big': lambda p, k: 1000 * (k - p) + 17}
CONC = {'wu4': [[0, F(1, 2), F(1, 4), 0], [F(1, 2), 0, 1, 0], [F(1, 4), 1, 0, F(3, 4)], [0, 0, F(3, 4), 0]],
        'ws4': [[0, F(1, 2), F(-1, 4), 0], [F(1, 2), 0, 1, F(-1, 2)], [F(-1, 4), 1, 0, F(3, 4)], [0, F(-1, 2), F(3, 4), 0]],
        'wd4': [[0, F(1, 2), 0, F(1, 8)], [F(1, 4), 0, 1, 0], [F(3, 4), 0, 0, F(1, 2)], [0, 1, 0, 0]]}
SPECS = [('participation_coef', 'centrality', 'sym_u', [{}, {'degree': 'out'}, {'degree': 'in'}]), ('participation_coef_sign', 'centrality', 'ws4', [{}]),
         ('modularity_und', 'modularity', 'sym_u', [{}]), ('modularity_dir', 'modularity', 'sym_d', [{}]), ('modularity_und_sign', 'modularity', 'sym_s', [{}, {'qtype': 'gja'}, {'qtype': 'neg'}]),
         ('module_degree_zscore', 'centrality', 'wu4', [{}, {'flag': 2}]), ('module_degree_zscore', 'centrality', 'wd4', [{'flag': 1}, {'flag': 3}]),
         ('diversity_coef_sign', 'centrality', 'ws4', [{}]), ('gateway_coef_sign', 'centrality', 'ws4', [{}, {'centrality_type': 'betweenness'}])]


def cases(tier, seed):
    q = False          # the full bounds cost about a minute: quick and thorough coincide
    cs = []
    for fn, mod, inp, kws in SPECS:
        n = 4 if not inp.startswith('sym') else (3 if q and fn.startswith('modularity') else 4)
        for part in set_partitions(n):
            for rl in (('7p3', 'rev') if q else RELABEL):
                for kw in kws:
                    cs.append(dict(name='%s/%s/part%s/%s/%s' % (fn, inp, ''.join(map(str, part)), rl, ','.join('%s=%s' % kv for kv in kw.items()) or '-'), fn=fn, mod=mod, inp=inp, n=n, part=part,
                                   relabel=rl, kw=kw, kind='inv', weight=5, optional=(fn == 'gateway_coef_sign')))
    parts4 = set_partitions(4)
    for a in parts4:
        cs.append(dict(name='partition_distance/part%s' % ''.join(map(str, a)), fn='partition_distance', kind='pd', n=4, part=a, weight=5))
        cs.append(dict(name='ci2ls_ls2ci/part%s' % ''.join(map(str, a)), fn='ci2ls', kind='ls', n=4, part=a, weight=1))
    return cs


def body(case, M):
    return {'inv': body_inv, 'pd': body_pd, 'ls': body_ls}[case['kind']](case, M)


def flatten(x):
    if isinstance(x, tuple): return [v for part in x for v in flatten(part)]
    if isinstance(x, np.ndarray): return list(x.view(np.ndarray).reshape(-1))
    if isinstance(x, list): return [v for part in x for v in flatten(part)]
    return [x]


def eqv(M, x, y):
    x = sc.n_(x) if not isinstance(x, (ir.T, sc.Ext)) else x
    y = sc.n_(y) if not isinstance(y, (ir.T, sc.Ext)) else y
    if M.symbolic:
        if isinstance(x, float) and isinstance(y, float) and x != x and y != y: return True
        return True if ir.poly_equal(x, y) else sc.eq(x, y)
    fx, fy = float(x), float(y)
    return (fx == fy) or (fx != fx and fy != fy) or abs(fx - fy) <= 1e-9 * max(1.0, abs(fy))


def body_inv(case, M):
    fn, n, part, inp = case['fn'], case['n'], case['part'], case['inp']
    k = max(part)
    if inp.startswith('sym'):
        und = inp != 'sym_d'
        W = [[0] * n for _ in range(n)]
        for a in range(n):
            for b in range(n):
                if a == b or (und and b < a): continue
                W[a][b] = M.real('w_%d_%d' % (a, b), lo=(None if inp == 'sym_s' else 0), hi=8, lo_open=(inp != 'sym_s'))
                if und: W[b][a] = W[a][b]
    else:
        W = [[(float(x) if not M.symbolic else x) for x in r] for r in CONC[inp]]
    la = [p + 1 for p in part]; lb = [RELABEL[case['relabel']](p, k) for p in part]
    f = getattr(M.mod(case['mod']), fn)
    kw = dict(case['kw'])
    def run(labels):
        A = M.array(W, 'f'); ci = M.array(labels, 'i')
        if fn in ('modularity_und', 'modularity_dir'): return f(A, kci=ci, **kw)[1]
        if fn == 'modularity_und_sign': return f(A, ci, **kw)[1]
        return f(A, ci, **kw)
    o1, o2 = run(la), run(lb)
    f1, f2 = flatten(o1), flatten(o2)
    M.oblige('ret:same_shape', len(f1) == len(f2))
    for t, (x, y) in enumerate(zip(f1, f2)):
        M.oblige('ret:same_result_for_renamed_labels#%d' % t, eqv(M, x, y))
    if k >= 1: M.note('several_modules')
    M.result('o1', f1)


def body_pd(case, M):
    a = case['part']; n = case['n']; ka = max(a)
    pd = M.mod('modularity').partition_distance
    for b in set_partitions(n):
        kb = max(b)
        la = [p + 1 for p in a]; lb = [p + 1 for p in b]
        v1, m1 = pd(M.array(la, 'i'), M.array(lb, 'i'))
        v2, m2 = pd(M.array(lb, 'i'), M.array(la, 'i'))
        v3, m3 = pd(M.array([7 * p + 3 for p in a], 'i'), M.array([kb - p for p in b], 'i'))
        tag = 'vs%s' % ''.join(map(str, b))
        c = lambda x, y: abs(float(x) - float(y)) <= 1e-9 or (float(x) != float(x) and float(y) != float(y))
        M.oblige('%s:symmetric_in_its_arguments' % tag, c(v1, v2) and c(m1, m2))
        M.oblige('%s:invariant_under_renaming' % tag, c(v1, v3) and c(m1, m3))
        same = all((a[i] == a[j]) == (b[i] == b[j]) for i in range(n) for j in range(n))
        trivial = ka == 0 and kb == 0          # both one-module partitions: entropies are 0 and MIn is 0/0
        if not trivial:
            M.oblige('%s:zero_vi_and_unit_mi_iff_same_partition' % tag, (abs(float(v1)) <= 1e-9 and abs(float(m1) - 1) <= 1e-9) == same)
        M.oblige('%s:normalised_vi_in_unit_interval' % tag, -1e-9 <= float(v1) <= 1 + 1e-9)
    M.note('several_modules')
    M.note('no_witness')


def body_ls(case, M):
    a = case['part']; n = case['n']
    mod = M.mod('modularity')
    for rl in RELABEL:
        lab = [RELABEL[rl](p, max(a)) for p in a]
        ls = mod.ci2ls(M.array(lab, 'i'))
        ci = mod.ls2ci(ls)
        back = [M.int_value(x) for x in vec(ci)]
        M.oblige('%s:ls2ci_of_ci2ls_is_same_partition' % rl, len(back) == n and all((back[i] == back[j]) == (a[i] == a[j]) for i in range(n) for j in range(n)))
        ls2 = mod.ci2ls(ci)
        M.oblige('%s:ci2ls_of_ls2ci_is_same_list' % rl, [sorted(int(v) for v in g) for g in ls2] == [sorted(int(v) for v in g) for g in ls])
    M.note('several_modules'); M.note('no_witness')
