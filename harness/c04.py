"""C04 — graph measures are equivariant under renumbering of nodes.

For measure f, input A and permutation p, f(A) and f(A[p][:, p]) are both run in the same exploration and
f(A_p) = permute(f(A)) is asserted (vectors permuted, matrices permuted on both axes, scalars/distributions unchanged).
Adjacency bits are forked (one labelled graph per path); weights / lengths stay symbolic."""
import itertools
from fractions import Fraction
import numpy as np
from symx import sc, ir
from harness.common import *
from harness.c09 import forked_graph

PROPERTY = 'C04'
# (function, module, input kind, output spec, extra args)   output spec: tuple of 'v' node vector, 'm' node x node matrix, 's' scalar / distribution, '-' ignored
SPECS = [
 ('degrees_und', 'degree', 'bu', 'v', ()), ('degrees_dir', 'degree', 'bd', 'vvv', ()), ('strengths_und', 'degree', 'wu', 'v', ()), ('strengths_dir', 'degree', 'wd', 'v', ()),
 ('density_und', 'physical_connectivity', 'bu', 'sss', ()), ('density_dir', 'physical_connectivity', 'bd', 'sss', ()),
 ('clustering_coef_bu', 'clustering', 'bu', 'v', ()), ('clustering_coef_bd', 'clustering', 'bd', 'v', ()), ('clustering_coef_wu', 'clustering', 'cu', 'v', ()),
 ('clustering_coef_wd', 'clustering', 'cd', 'v', ()), ('transitivity_bu', 'clustering', 'bu', 's', ()), ('transitivity_bd', 'clustering', 'bd', 's', ()),
 ('transitivity_wu', 'clustering', 'cu', 's', ()), ('transitivity_wd', 'clustering', 'cd', 's', ()),
 ('distance_bin', 'distance', 'bd', 'm', ()), ('distance_wei', 'distance', 'ld', 'm-', ()), ('distance_wei_floyd', 'distance', 'ld', 'm--', ()),
 ('breadthdist', 'distance', 'bd', 'mm', ()), ('reachdist', 'distance', 'bd', 'mm', ()),
 ('efficiency_bin', 'efficiency', 'bu', 's', ()), ('efficiency_bin_local', 'efficiency', 'bu', 'v', ()), ('efficiency_wei', 'efficiency', 'wu', 's', ()),
 ('betweenness_bin', 'centrality', 'bd', 'v', ()), ('betweenness_wei', 'centrality', 'ld', 'v', ()), ('edge_betweenness_bin', 'centrality', 'bd', 'mv', ()),
 ('edge_betweenness_wei', 'centrality', 'ld', 'mv', ()),
 ('betweenness_wei', 'centrality', 'bd', 'v', ()), ('edge_betweenness_wei', 'centrality', 'bd', 'mv', ()), ('distance_wei', 'distance', 'bd', 'm-', ()), ('distance_wei_floyd', 'distance', 'bd', 'm--', ()),
 ('betweenness_wei', 'centrality', 'bu', 'v', ()), ('efficiency_wei', 'efficiency', 'bu', 's', ()), ('efficiency_wei_local', 'efficiency', 'bu', 'v', ()),
 ('kcore_bu', 'core', 'bu', 'ms', (2,)), ('kcore_bd', 'core', 'bd', 'ms', (2,)), ('score_wu', 'core', 'wu', 'ms', (Fraction(3, 2),)),
 ('kcoreness_centrality_bu', 'centrality', 'bu', 'vs', ()), ('kcoreness_centrality_bd', 'centrality', 'bd', 'vs', ()),
 ('rich_club_bu', 'core', 'bu', 'sss', ()), ('rich_club_bd', 'core', 'bd', 'sss', ()), ('assortativity_bin', 'core', 'bu', 's', ()), ('assortativity_wei', 'core', 'wu', 's', ()),
 ('matching_ind', 'similarity', 'bd', 'mmm', ()), ('edge_nei_overlap_bu', 'similarity', 'bu', 'm--', ()), ('edge_nei_overlap_bd', 'similarity', 'bd', 'm--', ()),
 ('gtom', 'similarity', 'bu', 'm', (1,)), ('gtom', 'similarity', 'bu', 'm', (2,)), ('flow_coef_bd', 'centrality', 'bd', 'vs-', ()),
 ('participation_coef', 'centrality', 'wu+ci', 'v', ()), ('module_degree_zscore', 'centrality', 'wu+ci', 'v', ()), ('get_components', 'clustering', 'bu', 'pd', ()),
]
FUNCTIONS = sorted({s[0].replace('_local', '') for s in SPECS})
# an edge whose endpoints have no other neighbour makes edge_nei_overlap_* divide 0 by 0 with python ints (ZeroDivisionError on the
# real code, NaN in the MATLAB original): outside the measure's domain, the path is skipped (noted in DESIGN section 5)
ALLOWED_EXCEPTIONS = {'edge_nei_overlap_bu': ('ZeroDivisionError',), 'edge_nei_overlap_bd': ('ZeroDivisionError',)}
GUARDS = [dict(note='asymmetric_graph', min=1, why='some explored graph must not be invariant under the permutation')]
ASSUMPTIONS = ['one path per labelled graph (all undirected graphs on 4 nodes / all digraphs on 3 nodes / a seeded family of 64 digraphs on 4 nodes); weights, cube-root weights and lengths symbolic on the forked support',
               'tie-dependent auxiliary outputs (hop matrix of distance_wei, hops/Pmat of distance_wei_floyd, edge lists) are not compared; LAPACK-based measures (pagerank, eigenvector, subgraph centrality) are not encoded',
               'permutations: the transposition (0 1) and the n-cycle (generators of S_n) plus seeded ones in quick; all n! in thorough']
BOUNDS = {'quick': dict(n='3..4', permutations='generators + 1 seeded'), 'thorough': dict(n='4', permutations='all 24')}
OPTS = {'quick': dict(witnesses_per_case=1, budget_s=600), 'thorough': dict(witnesses_per_case=1, budget_s=3000)}
F = Fraction


def cases(tier, seed):
    q = tier != 'thorough'
    import random
    rnd = random.Random(seed)
    pairs4 = [(a, b) for a in range(4) for b in range(4) if a != b]
    free = rnd.sample(pairs4, 6)
    fam = {'%d_%d' % p: rnd.choice([0, 1, 1]) for p in pairs4 if p not in free}
    cs = []
    def perms(n):
        allp = [list(p) for p in itertools.permutations(range(n)) if list(p) != list(range(n))]
        if not q: return allp
        gens = [[1, 0] + list(range(2, n)), list(range(1, n)) + [0]]
        rest = [p for p in allp if p not in gens]
        return gens + rnd.sample(rest, 1)
    for t, (fn, mod, kind, spec, extra) in enumerate(SPECS):
        und = kind[1] == 'u'
        fams = [(4, True, {})] if und else [(3, False, {}), (4, False, fam)]
        if fn in ('distance_wei', 'distance_wei_floyd', 'efficiency_wei', 'betweenness_wei', 'edge_betweenness_wei') and q and kind[0] not in 'b': fams = [(3, False, {})] if not und else [(3, True, {})]       # two Dijkstra runs per path fork on support and ties: 4-node family is thorough-tier
        for n, u, fixed in fams:
            for p in perms(n):
                cs.append(dict(name='%s%s/%s/n%d/perm%s' % (fn, ''.join(map(str, extra)) if extra else '', kind, n, ''.join(map(str, p))), fn=fn, mod=mod, ikind=kind, spec=spec,
                               extra=[str(x) if isinstance(x, Fraction) else x for x in extra], n=n, undirected=u, fixed=fixed, perm=p, weight=50, shard_depth=4, optional=True,
                               cfg=dict(lazy_where=True) if fn == 'distance_wei_floyd' else {}))
    return cs


def build_input(M, kind, adj, n, und):
    k = kind[0]
    vals = [[(0 if M.symbolic else 0.0)] * n for _ in range(n)]
    for a in range(n):
        for b in range(n):
            if a == b or not adj[a][b] or (und and b < a): continue
            if k == 'b': v = 1 if M.symbolic else 1.0
            elif k == 'w': v = M.real('w_%d_%d' % (a, b), lo=0, hi=8, lo_open=True)
            elif k == 'l': v = M.real('w_%d_%d' % (a, b), lo=0, hi=8, lo_open=True)
            elif k == 'c':
                c = M.real('c_%d_%d' % (a, b), lo=0, hi=1, lo_open=True)
                v = ir.cube(c) if M.symbolic else float(c) ** 3
            vals[a][b] = v
            if und: vals[b][a] = v
    return vals


def call(M, case, A, ci=None):
    fn = case['fn']
    extra = [Fraction(x) if isinstance(x, str) else x for x in case['extra']]
    if not M.symbolic: extra = [float(x) if isinstance(x, Fraction) else x for x in extra]
    f = getattr(M.mod(case['mod']), fn.replace('_local', ''))
    if fn.endswith('_local'): return f(A, local=True)
    if ci is not None: return f(A, ci, *extra)
    return f(A, *extra)


def as_list(x):
    if isinstance(x, np.ndarray): return x.view(np.ndarray)
    return x


def eqv(M, x, y):
    x = sc.n_(x) if not isinstance(x, (ir.T, sc.Ext)) else x
    y = sc.n_(y) if not isinstance(y, (ir.T, sc.Ext)) else y
    if M.symbolic:
        if isinstance(x, float) and isinstance(y, float) and x != x and y != y: return True
        return True if ir.poly_equal(x, y) else sc.eq(x, y)
    fx, fy = float(x), float(y)
    return (fx == fy) or (fx != fx and fy != fy) or abs(fx - fy) <= 1e-9 * max(1.0, abs(fy))


def body(case, M):
    n, p, kind, spec = case['n'], case['perm'], case['ikind'], case['spec']
    und = case['undirected']
    adj = forked_graph(M, n, und, case.get('fixed', {}))
    vals = build_input(M, kind, adj, n, und)
    pv = [[vals[p[a]][p[b]] for b in range(n)] for a in range(n)]
    if any(adj[a][b] != adj[p[a]][p[b]] for a in range(n) for b in range(n)): M.note('asymmetric_graph')
    ci = cip = None
    if kind.endswith('+ci'):
        labels = [3, 3, 7, 1][:n]
        ci = M.array(labels, 'i'); cip = M.array([labels[p[a]] for a in range(n)], 'i')
    o1 = call(M, case, M.array(vals, 'f'), ci)
    o2 = call(M, case, M.array(pv, 'f'), cip)
    if not isinstance(o1, tuple): o1, o2 = (o1,), (o2,)
    M.oblige('ret:same_number_of_outputs', len(o1) == len(o2))
    for t, sp in enumerate(spec):
        if t >= len(o1) or sp == '-': continue
        a, b = as_list(o1[t]), as_list(o2[t])
        if sp == 'v':
            for i in range(n): M.oblige('ret:node_vector_permuted#%d_%d' % (t, i), eqv(M, b[i], a[p[i]]))
        elif sp == 'm':
            for i in range(n):
                for j in range(n): M.oblige('ret:pair_matrix_permuted#%d_%d_%d' % (t, i, j), eqv(M, b[i, j] if hasattr(b, 'shape') else b[i][j], a[p[i], p[j]] if hasattr(a, 'shape') else a[p[i]][p[j]]))
        elif sp == 's':
            fa = list(np.asarray(a, dtype=object).reshape(-1)) if isinstance(a, np.ndarray) else [a]
            fb = list(np.asarray(b, dtype=object).reshape(-1)) if isinstance(b, np.ndarray) else [b]
            M.oblige('ret:scalar_shape#%d' % t, len(fa) == len(fb))
            for i, (x, y) in enumerate(zip(fa, fb)): M.oblige('ret:scalar_or_distribution_unchanged#%d_%d' % (t, i), eqv(M, y, x))
        elif sp == 'd':
            fa = sorted(M.int_value(x) for x in a); fb = sorted(M.int_value(x) for x in b)
            M.oblige('ret:size_distribution_unchanged#%d' % t, fa == fb)
        elif sp == 'p':
            la = [M.int_value(x) for x in a]; lb = [M.int_value(x) for x in b]
            for i in range(n):
                for j in range(i): M.oblige('ret:partition_permuted#%d_%d' % (i, j), (lb[i] == lb[j]) == (la[p[i]] == la[p[j]]))
    M.result('o2', [list(np.asarray(x, dtype=object).reshape(-1)) if isinstance(x, np.ndarray) else x for x, sp in zip(o2, spec) if sp != '-'])
