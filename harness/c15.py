"""C15 — k-core and s-core outputs are the maximal subnetworks meeting the degree bound.

Symbolic adjacency bits (all graphs of the size at once), symbolic k (Int) / s (Real) and symbolic weights; the peeling
loop's np.where is a masked view, so a path is "number of peeling rounds", not a node subset.  Oracle: subset enumeration
(2^n candidate node sets)."""
import itertools
from fractions import Fraction
import numpy as np
from symx import sc
from harness.common import *

PROPERTY = 'C15'
FUNCTIONS = ['kcore_bu', 'kcore_bd', 'score_wu', 'kcoreness_centrality_bu', 'kcoreness_centrality_bd', 'degrees_und', 'degrees_dir', 'strengths_und']
ALLOWED_EXCEPTIONS = {}
GUARDS = [dict(note='peeled', min=1, why='some path must peel at least one node'), dict(note='nothing_peeled', min=1, why='some path must peel nothing')]
ASSUMPTIONS = ['k >= 1 (k = 0 is outside the documented use: the routines report the number of non-isolated nodes there)',
               'binary routines: all graphs of the stated size through symbolic adjacency bits; score_wu: symbolic support bits and symbolic weights in (0, 8], s > 0',
               'peel=True variants and kcoreness_centrality run with eager np.where (they need concrete node lists): one path per peeling history']
BOUNDS = {'quick': dict(kcore_bu='n <= 4', kcore_bd='n = 3', score_wu='n = 3..4', coreness='n <= 4 undirected, n = 3 directed'), 'thorough': dict(kcore_bu='n = 5', kcore_bd='n = 4')}
OPTS = {'quick': dict(witnesses_per_case=6, budget_s=600), 'thorough': dict(witnesses_per_case=6, budget_s=3000)}


def cases(tier, seed):
    q = False          # the full bounds cost about a minute: quick and thorough coincide
    cs = []
    L = dict(lazy_where=True)
    for n in ((3, 4) if q else (3, 4, 5)):
        cs.append(dict(name='kcore_bu/n%d' % n, fn='kcore_bu', kind='core', n=n, directed=False, cfg=L, weight=3 ** n, shard_depth=4 if n >= 5 else None))
        cs.append(dict(name='kcore_bu/nested/n%d' % n, fn='kcore_bu', kind='nested', n=n, directed=False, cfg=L, weight=3 ** n))
    for n in ((3,) if q else (3, 4)):
        cs.append(dict(name='kcore_bd/n%d' % n, fn='kcore_bd', kind='core', n=n, directed=True, cfg=L, weight=4 ** n, shard_depth=4 if n >= 4 else None))
        cs.append(dict(name='kcore_bd/nested/n%d' % n, fn='kcore_bd', kind='nested', n=n, directed=True, cfg=L, weight=4 ** n))
    for n in ((3, 4) if q else (3, 4, 5)):
        cs.append(dict(name='score_wu/n%d' % n, fn='score_wu', kind='score', n=n, cfg=L, weight=4 ** n, shard_depth=4 if n >= 4 else None))
    for n in ((3, 4) if q else (3, 4, 5)):
        cs.append(dict(name='kcore_bu/peel/n%d' % n, fn='kcore_bu', kind='peel', n=n, directed=False, weight=5 ** n, shard_depth=5 if n >= 4 else None))
        cs.append(dict(name='kcoreness_centrality_bu/n%d' % n, fn='kcoreness_centrality_bu', kind='coreness', n=n, directed=False, weight=5 ** n, shard_depth=5 if n >= 4 else None))
    for n in ((3,) if q else (3, 4)):
        cs.append(dict(name='kcore_bd/peel/n%d' % n, fn='kcore_bd', kind='peel', n=n, directed=True, weight=6 ** n, shard_depth=5))
        cs.append(dict(name='kcoreness_centrality_bd/n%d' % n, fn='kcoreness_centrality_bd', kind='coreness', n=n, directed=True, weight=6 ** n, shard_depth=5))
    return cs


def sym_graph(M, n, directed, name='a'):
    bits = [[False] * n for _ in range(n)]
    for a in range(n):
        for b in range(n):
            if a == b: continue
            if directed: bits[a][b] = M.boolean('%s_%d_%d' % (name, a, b))
            elif a < b: bits[a][b] = bits[b][a] = M.boolean('%s_%d_%d' % (name, a, b))
    A = M.array([[(sc.ite(bits[a][b], 1, 0) if M.symbolic else float(bits[a][b])) if a != b else (0 if M.symbolic else 0.0) for b in range(n)] for a in range(n)], 'f')
    return bits, A


def deg_in(bits_or_w, T, v, n, directed, weighted=False):
    """degree (in+out for directed, strength if weighted) of v inside node set T (list of Bool membership conditions)"""
    tot = 0
    for u in range(n):
        if u == v: continue
        x = bits_or_w[v][u]
        term = (sc.ite(land(T[u], x), 1, 0) if not weighted else sc.ite(T[u], x, 0))
        tot = sc.add(tot, term)
        if directed:
            y = bits_or_w[u][v]
            tot = sc.add(tot, sc.ite(land(T[u], y), 1, 0))
    return tot


def check_core(M, bits, X, kk, kn, n, directed, tag, weights=None):
    """bits: input adjacency conditions; X: returned matrix; kk: threshold; returns the membership conditions S"""
    W = weights if weights is not None else bits
    S = [lor(*[lor(nz(cell(X, v, u)), nz(cell(X, u, v))) for u in range(n)]) for v in range(n)]
    for v in range(n):
        d = deg_in(W, S, v, n, directed, weighted=weights is not None)
        M.oblige('%s:member_meets_bound#%d' % (tag, v), implies(S[v], sc.ge(d, kk)))
    for a in range(n):
        for b in range(n):
            inp = (weights[a][b] if weights is not None else sc.ite(bits[a][b], 1, 0)) if a != b else 0
            M.oblige('%s:output_is_input_restricted_to_core#%d_%d' % (tag, a, b), eq(cell(X, a, b), sc.ite(land(S[a], S[b]), inp, 0)))
    M.oblige('%s:reported_size' % tag, eq(kn, count(S)))
    # maximality: every node set closed under the bound lies inside the core
    for r in range(1, n + 1):
        for Tset in itertools.combinations(range(n), r):
            T = [v in Tset for v in range(n)]
            closed = land(*[sc.ge(deg_in(W, T, v, n, directed, weighted=weights is not None), kk) for v in Tset])
            M.oblige('%s:maximal#%s' % (tag, ''.join(map(str, Tset))), implies(closed, land(*[S[v] for v in Tset])))
    return S


def body(case, M):
    return {'core': body_core, 'nested': body_nested, 'score': body_score, 'peel': body_peel, 'coreness': body_coreness}[case['kind']](case, M)


def body_core(case, M):
    n, directed = case['n'], case['directed']
    bits, A = sym_graph(M, n, directed)
    k = M.integer('k', lo=1, hi=(2 * (n - 1) if directed else n - 1) + 1)
    X, kn = getattr(M.mod('core'), case['fn'])(A, k)
    S = check_core(M, bits, X, k, kn, n, directed, 'ret')
    M.result('X', X); M.result('kn', kn)
    if M.symbolic:
        peeled = lor(*[land(lor(*[lor(bits[v][u], bits[u][v]) for u in range(n)]), lnot(S[v])) for v in range(n)])
        M.note('peeled' if M.truth_value(peeled) else 'nothing_peeled')


def body_nested(case, M):
    n, directed = case['n'], case['directed']
    bits, A = sym_graph(M, n, directed)
    k = M.integer('k', lo=1, hi=(2 * (n - 1) if directed else n - 1))
    f = getattr(M.mod('core'), case['fn'])
    X1, kn1 = f(A, k)
    X2, kn2 = f(A, sc.add(k, 1) if M.symbolic else k + 1)
    for v in range(n):
        s1 = lor(*[lor(nz(cell(X1, v, u)), nz(cell(X1, u, v))) for u in range(n)])
        s2 = lor(*[lor(nz(cell(X2, v, u)), nz(cell(X2, u, v))) for u in range(n)])
        M.oblige('ret:cores_nested#%d' % v, implies(s2, s1))
    M.oblige('ret:core_sizes_nested', sc.le(kn2, kn1))
    M.result('kn1', kn1); M.result('kn2', kn2)


def body_score(case, M):
    n = case['n']
    bits, _ = sym_graph(M, n, False)
    w = [[0] * n for _ in range(n)]
    for a in range(n):
        for b in range(a + 1, n):
            x = M.real('w_%d_%d' % (a, b), lo=0, hi=8, lo_open=True)
            w[a][b] = w[b][a] = (sc.ite(bits[a][b], x, 0) if M.symbolic else (x if bits[a][b] else 0.0))
    A = M.array(w, 'f')
    s = M.real('s', lo=0, hi=20, lo_open=True)
    X, sn = M.mod('core').score_wu(A, s)
    check_core(M, [[nz(w[a][b]) for b in range(n)] for a in range(n)], X, s, sn, n, False, 'ret', weights=w)
    M.result('X', X); M.result('sn', sn)


def concrete_graph(M, n, directed):
    """fork on every adjacency bit (one path per labelled graph)"""
    bits, A = sym_graph(M, n, directed)
    cb = [[bool(M.truth_value(bits[a][b])) if a != b else False for b in range(n)] for a in range(n)]
    return cb, A


def core_set(cb, n, k, directed):
    S = set(range(n))
    while True:
        bad = [v for v in S if sum((cb[v][u] + (cb[u][v] if directed else 0)) for u in S if u != v) < k]
        if not bad: break
        S -= set(bad)
    return {v for v in S if any(cb[v][u] or cb[u][v] for u in S if u != v)} if k >= 1 else S


def body_peel(case, M):
    n, directed = case['n'], case['directed']
    cb, A = concrete_graph(M, n, directed)
    k = M.int_value(M.integer('k', lo=1, hi=(2 * (n - 1) if directed else n - 1) + 1))
    X, kn, order, level = getattr(M.mod('core'), case['fn'])(A, k, peel=True)
    S = core_set(cb, n, k, directed)
    got = {v for v in range(n) if any(bool(nz(cell(X, v, u))) or bool(nz(cell(X, u, v))) for u in range(n))}
    M.oblige('ret:core_is_maximal_set', got == S)
    M.oblige('ret:reported_size', M.int_value(kn) == len(S))
    removed = {v for v in range(n) if any(cb[v][u] or cb[u][v] for u in range(n))} - S
    flat = [M.int_value(x) for part in order for x in vec(part)]
    lev = [M.int_value(x) for part in level for x in vec(part)]
    M.oblige('ret:peel_lists_aligned', len(flat) == len(lev))
    missing = sorted(removed - set(flat)); extra = sorted(set(flat) - removed); dups = len(flat) != len(set(flat))
    # a node silently dropped because every one of its neighbours was peeled (its degree fell to 0) is a separate, listed finding
    silent_ok = all(all((not (cb[v][u] or cb[u][v])) or (u in flat) for u in range(n)) for v in missing)
    M.oblige('ret:listed_nodes_are_removed_nodes_without_repeats', (not extra) and (not dups))
    M.oblige('ret:unlisted_removed_nodes_lost_all_neighbours', silent_ok)
    M.oblige('ret:each_removed_node_listed_once', sorted(flat) == sorted(removed),
             dict(missing=missing, extra=extra, dups=dups, only_nodes_whose_neighbours_were_all_peeled=bool(silent_ok and not extra and not dups)))
    M.oblige('ret:peel_levels_non_decreasing', all(lev[t] <= lev[t + 1] for t in range(len(lev) - 1)))
    M.result('kn', kn); M.result('order', flat)
    M.note('peeled' if removed else 'nothing_peeled')


def body_coreness(case, M):
    n, directed = case['n'], case['directed']
    cb, A = concrete_graph(M, n, directed)
    coreness, kn = getattr(M.mod('centrality'), case['fn'])(A)
    cv = [M.int_value(x) for x in vec(coreness)]; kv = [M.int_value(x) for x in vec(kn)]
    kmax = 2 * (n - 1) if directed else n - 1
    cores = {k: core_set(cb, n, k, directed) for k in range(1, kmax + 1)}
    for v in range(n):
        exp = max([k for k in cores if v in cores[k]] or [0])
        indeg_in_own_core = sum(1 for u in cores.get(exp, ()) if u != v and cb[u][v]) if exp else 0
        M.oblige('ret:coreness_is_largest_k_whose_core_contains_node#%d' % v, cv[v] == exp,
                 dict(expected=exp, got=cv[v], n=n, beyond_loop_range=bool(exp >= n), no_in_edge_inside_core=bool(directed and exp and indeg_in_own_core == 0)))
    for k in range(1, len(kv)):
        M.oblige('ret:core_size#%d' % k, kv[k] == len(cores.get(k, set())))
    M.result('coreness', coreness); M.result('kn', kn)
