"""C06 — signed null models keep each node's positive/negative degree and all weights.

randmio_und_signed / randmio_dir_signed: every off-diagonal entry is an unconstrained symbolic real (sign and zero-ness
free), the randint(n**4) draws are symbolic.  null_model_und_sign / null_model_dir_sign: concrete small signed matrices
(the expected-weight matrix is a product of strengths), every draw symbolic; np.corrcoef is a recording stub.
"""
from fractions import Fraction
import numpy as np
from symx import sc
from harness.common import *

PROPERTY = 'C06'
FUNCTIONS = ['randmio_und_signed', 'randmio_dir_signed', 'pick_four_unique_nodes_quickly', 'null_model_und_sign', 'null_model_dir_sign']
ALLOWED_EXCEPTIONS = {}
GUARDS = [dict(note='swap_accepted:randmio_und_signed', min=1, why='a sign-preserving swap must be accepted on some path'),
          dict(note='swap_accepted:randmio_dir_signed', min=1, why='a sign-preserving swap must be accepted on some path')]
ASSUMPTIONS = ['randmio_*_signed: entries are arbitrary reals with an empty diagonal (symmetric for _und); iteration count m through itr = (m + 1/2)/(number of node pairs)',
               'null_model_*_sign: weights concrete (enumerated signed matrices), draws symbolic; np.corrcoef replaced by a stub that records its two argument vectors',
               'paths that need more draws than the draw budget are pruned; re-draws of pick_four_unique_nodes_quickly are cut as redundant revisits']
BOUNDS = {'quick': dict(n=4, iterations='1 (und: <=3 attempts, dir: <=3 of 5 attempts)'), 'thorough': dict(n='4..5', iterations='1..2')}
OPTS = {'quick': dict(witnesses_per_case=3, budget_s=500), 'thorough': dict(witnesses_per_case=3, budget_s=3000)}

NM = {'mix4': [[0, 2, -1, 0], [2, 0, 3, -2], [-1, 3, 0, 1], [0, -2, 1, 0]],
      'mix4b': [[0, 1, -3, 2], [1, 0, 0, -1], [-3, 0, 0, 4], [2, -1, 4, 0]],
      'fullpos4': [[0, 1, 2, 3], [1, 0, 4, 5], [2, 4, 0, 6], [3, 5, 6, 0]],
      'dmix4': [[0, 2, -1, 0], [1, 0, 3, -2], [-3, 0, 0, 1], [0, -1, 2, 0]],
      'dmix4b': [[0, -2, 1, 3], [2, 0, 0, -1], [0, 4, 0, -3], [-1, 0, 2, 0]],
      'mix3': [[0, 2, -1], [2, 0, 3], [-1, 3, 0]], 'dmix3': [[0, 2, -1], [1, 0, 3], [-2, 0, 0]]}


def cases(tier, seed):
    q = tier != 'thorough'
    cs = []
    def add(**k):
        k.setdefault('name', '%s/%s' % (k['fn'], k.get('tag', ''))); cs.append(k)
    add(fn='randmio_und_signed', kind='rs', n=4, iters=1, draws=4, tag='n4/m1', weight=50, shard_depth=4)
    add(fn='randmio_und_signed', kind='rs', n=4, iters=0, draws=1, tag='n4/m0')
    add(fn='randmio_dir_signed', kind='rs', n=4, iters=1, draws=2 if q else 4, tag='n4/m1', weight=80, shard_depth=4)
    add(fn='randmio_dir_signed', kind='rs', n=4, iters=0, draws=1, tag='n4/m0')
    if not q:
        add(fn='randmio_und_signed', kind='rs', n=4, iters=2, draws=4, tag='n4/m2', weight=300, shard_depth=6)
        add(fn='randmio_und_signed', kind='rs', n=5, iters=1, draws=2, tag='n5/m1', weight=300, shard_depth=4)
        add(fn='randmio_dir_signed', kind='rs', n=4, iters=2, draws=3, tag='n4/m2', weight=300, shard_depth=6)
    if q:
        plan = [('null_model_und_sign', 'mix4', 0, 0), ('null_model_und_sign', 'mix3', 0, 1), ('null_model_und_sign', 'mix3', 0, Fraction(1, 2)), ('null_model_und_sign', 'mix4', 1, 0),
                ('null_model_und_sign', 'fullpos4', 0, 0),
                ('null_model_dir_sign', 'dmix4', 0, 0), ('null_model_dir_sign', 'dmix3', 0, 1), ('null_model_dir_sign', 'dmix4', 1, 0)]
    else:
        plan = [('null_model_und_sign', w, bs, 0) for w in ('mix4', 'mix4b', 'fullpos4') for bs in (0, 1)] + \
               [('null_model_dir_sign', w, bs, 0) for w in ('dmix4', 'dmix4b') for bs in (0, 1)] + \
               [(f, w, 0, wf) for f, w in (('null_model_und_sign', 'mix3'), ('null_model_dir_sign', 'dmix3')) for wf in (Fraction(1, 2), 1)] + \
               [('null_model_und_sign', 'mix4', 0, Fraction(1, 2)), ('null_model_dir_sign', 'dmix4', 0, Fraction(1, 2))]
    for fn, w, bs, wf in plan:
        add(fn=fn, kind='nm', n=len(NM[w]), W=NM[w], bin_swaps=bs, wei_freq=str(wf), draws=(3 if bs else 0) + (16 if wf else 0), tag='%s/bs%d/wf%s' % (w, bs, wf),
            weight=20 + 200 * bs, shard_depth=6 if bs else None, cfg=dict(concretize_index=True) if wf else {})
    return cs


def sign_counts(X, n, v, axis, sgn):
    f = (lambda x: sc.gt(x, 0)) if sgn > 0 else (lambda x: sc.lt(x, 0))
    return count([f(cell(X, u, v) if axis == 0 else cell(X, v, u)) for u in range(n)])


def check_signed(M, W0, X, n, directed, tag='ret'):
    for v in range(n):
        for sgn, nm in ((1, 'pos'), (-1, 'neg')):
            M.oblige('%s:%s_in_degree#%d' % (tag, nm, v), eq(sign_counts(X, n, v, 0, sgn), sign_counts(W0, n, v, 0, sgn)))
            M.oblige('%s:%s_out_degree#%d' % (tag, nm, v), eq(sign_counts(X, n, v, 1, sgn), sign_counts(W0, n, v, 1, sgn)))
        M.oblige('%s:diagonal_empty#%d' % (tag, v), eq(cell(X, v, v), 0))
    if not directed:
        M.oblige('%s:symmetric' % tag, land(*[eq(cell(X, u, v), cell(X, v, u)) for u in range(n) for v in range(u)]))
    cells = [(u, v) for u in range(n) for v in range(n) if u != v]
    for (u, v) in cells:
        if not directed and u > v: continue
        w = W0[u][v]
        # multiset of positive and of negative weights: every input value keeps its multiplicity (zero included)
        M.oblige('%s:signed_weight_multiset#%d_%d' % (tag, u, v), eq(count([eq(cell(X, a, b), w) for a, b in cells]), count([eq(W0[a][b], w) for a, b in cells])))


def body(case, M):
    return {'rs': body_rs, 'nm': body_nm}[case['kind']](case, M)


def body_rs(case, M):
    fn, n, m = case['fn'], case['n'], case['iters']
    directed = 'dir' in fn
    vals = [[0] * n for _ in range(n)]
    for a in range(n):
        for b in range(n):
            if a == b: continue
            if directed: vals[a][b] = M.real('w_%d_%d' % (a, b))
            elif a < b: vals[a][b] = vals[b][a] = M.real('w_%d_%d' % (a, b))
    W = M.array(vals, 'f'); W0 = [r[:] for r in vals]
    npairs = n * (n - 1) if directed else n * (n - 1) // 2
    itr = 0 if m == 0 else (Fraction(2 * m + 1, 2 * npairs) if M.symbolic else (m + 0.5) / npairs)
    rng = M.rng(budget=case['draws'])
    X, eff = getattr(M.mod('reference'), fn)(W, itr, seed=rng)
    check_signed(M, W0, X, n, directed)
    if M.symbolic:
        changed = lor(*[lnot(eq(cell(X, a, b), W0[a][b])) for a in range(n) for b in range(n)])
        M.oblige('ret:unchanged_when_no_swap', implies(eff == 0, lnot(changed)))
    else:
        if eff == 0: M.oblige('ret:unchanged_when_no_swap', bool(np.array_equal(np.asarray(X), np.array(W0, dtype=float))))
    M.result('X', X); M.result('eff', eff)
    M.note(('swap_accepted:' + fn) if eff else 'no_swap')


def strengths(X, n, sgn, axis):
    out = []
    for v in range(n):
        s = 0
        for u in range(n):
            x = cell(X, u, v) if axis == 0 else cell(X, v, u)
            s = sc.add(s, sc.ite(sc.gt(x, 0) if sgn > 0 else sc.lt(x, 0), sc.mul(sgn, x), 0))
        out.append(s)
    return out


def body_nm(case, M):
    fn, n = case['fn'], case['n']
    directed = 'dir' in fn
    Wl = case['W']
    W = M.array([[float(x) if not M.symbolic else x for x in r] for r in Wl], 'f')
    wf = Fraction(case['wei_freq']); wfv = wf if M.symbolic else float(wf)
    bs = case['bin_swaps']
    npairs = n * (n - 1) // 2          # both null models rewire through randmio_*_signed with itr = bin_swaps
    # 0.17 * 6 = 1.02 -> one iteration of randmio_und_signed; 0.17 * 12 = 2.04 -> two iterations of randmio_dir_signed
    bsv = 0 if bs == 0 else (Fraction(17, 100) if M.symbolic else 0.17)
    rng = M.rng(budget=case['draws'])
    calls = []
    if M.symbolic:
        from symx import arr
        def stub(x, y):
            r = M.eng.fresh('corr', 'R', lo=-1, hi=1)
            calls.append((vec(arr.S(x)), vec(arr.S(y)), r))
            return arr.S(np.array([[1, r], [r, 1]], dtype=object), 'f')
        old = arr.CORRCOEF[0]; arr.CORRCOEF[0] = stub
    try:
        W0, R = getattr(M.mod('reference'), fn)(W, bin_swaps=bsv, wei_freq=wfv, seed=rng)
    finally:
        if M.symbolic: arr.CORRCOEF[0] = old
    check_signed(M, Wl, W0, n, directed)
    exp = [(strengths(Wl, n, 1, 0), strengths(W0, n, 1, 0)), (strengths(Wl, n, 1, 1), strengths(W0, n, 1, 1)),
           (strengths(Wl, n, -1, 0), strengths(W0, n, -1, 0)), (strengths(Wl, n, -1, 1), strengths(W0, n, -1, 1))]
    names = ['pos_in', 'pos_out', 'neg_in', 'neg_out']
    M.oblige('ret:four_correlations', len(R) == 4)
    if M.symbolic:
        M.oblige('ret:corrcoef_called_four_times', len(calls) == 4)
        for t, (ex, ey) in enumerate(exp):
            if t >= len(calls): break
            x, y, r = calls[t]
            M.oblige('ret:correlation_of_%s_strengths' % names[t], land(len(x) == n, len(y) == n, R[t] is r,
                     *[land(eq(x[v], ex[v]), eq(y[v], ey[v])) for v in range(min(n, len(x), len(y)))]))
    else:
        for t, (ex, ey) in enumerate(exp):
            with np.errstate(all='ignore'):
                c = np.corrcoef(np.array([float(v) for v in ex]), np.array([float(v) for v in ey]))[0, 1]
            got = float(R[t])
            ok = (np.isnan(c) and np.isnan(got)) or abs(c - got) <= 1e-9
            M.oblige('ret:correlation_of_%s_strengths' % names[t], bool(ok))
    # the result matrix itself depends on how exact ties in the expected-weight matrix are ordered (float rounding vs exact
    # arithmetic), which the property does not constrain: validate the facade on order-independent summaries
    flat = [cell(W0, a, b) for a in range(n) for b in range(n)]
    if not M.symbolic:
        M.result('sorted_values', sorted(float(v) for v in flat))
    else:
        M.note('no_witness')
