"""C08 — betweenness counts exactly the shortest paths through each node and edge.

Weighted routines: every cell a symbolic length >= 0 (0 = absent); the routines' own comparisons (Duw < D[w], Duw == D[w])
fork on support and tie structure, so each explored path is one tie structure for ALL length assignments that realise
it; the oracle counts shortest paths by brute force over enumerated simple paths, with every "is this path shortest"
question decided by the solver under the path condition.  Binary routines: one path per labelled graph."""
import itertools
from fractions import Fraction
import numpy as np
from symx import sc
from harness.common import *

PROPERTY = 'C08'
FUNCTIONS = ['betweenness_bin', 'betweenness_wei', 'edge_betweenness_bin', 'edge_betweenness_wei']
ALLOWED_EXCEPTIONS = {}
GUARDS = [dict(note='tie', min=1, why='some explored path must contain two equal-length shortest paths'), dict(note='unreachable_pair', min=1, why='some explored graph must have an unreachable pair')]
ASSUMPTIONS = ['weighted: lengths are reals >= 0, 0 = no connection; each explored path fixes the support and the order/tie structure of the path lengths examined by the routine',
               'binary: adjacency bits are forked by the harness (one concrete graph per path): all digraphs on 3 nodes, all undirected graphs on 4 nodes, a seeded family of 4-node digraphs']
BOUNDS = {'quick': dict(weighted='n = 3 directed, n = 4 undirected ring family', binary='n = 3 directed, n = 4 and 5 undirected (all graphs), 4-node digraph family of 64, 5-node digraph family of 256'), 'thorough': dict(weighted='n = 4 undirected full', binary='n = 4 directed all, n = 5 undirected all, 5-node digraph family of 2048')}
OPTS = {'quick': dict(witnesses_per_case=3, budget_s=900), 'thorough': dict(witnesses_per_case=3, budget_s=3000)}
F = Fraction


SKEL5 = {'double_diamond': [(0, 1), (1, 2), (0, 2), (0, 3), (3, 4), (2, 4)], 'house': [(0, 1), (1, 2), (2, 3), (3, 0), (2, 4), (3, 4)]}


def cases(tier, seed):
    q = tier != 'thorough'
    cs = []
    import random
    rnd = random.Random(seed)
    pairs4 = [(a, b) for a in range(4) for b in range(4) if a != b]
    for fn in ('betweenness_wei', 'edge_betweenness_wei'):
        cs.append(dict(name='%s/n3dir' % fn, fn=fn, kind='wei', n=3, weight=300, shard_depth=6))
        cs.append(dict(name='%s/n4und_ring' % fn, fn=fn, kind='wei', n=4, undirected=True, absent=[[0, 2], [1, 3]], weight=300, shard_depth=6))
        cs.append(dict(name='%s/n4und_diamond' % fn, fn=fn, kind='wei', n=4, undirected=True, absent=[[1, 3]], weight=900, shard_depth=8))
        # 5-node sparse skeletons (present cells listed; everything else absent): merging bundles of shortest paths with different
        # multiplicities need five or more nodes
        for nm, edges in (SKEL5.items() if not q else ()):
            absent = [[a, b] for a in range(5) for b in range(a + 1, 5) if (a, b) not in edges and (b, a) not in edges]
            cs.append(dict(name='%s/n5und_%s' % (fn, nm), fn=fn, kind='wei', n=5, undirected=True, absent=absent, all_present=True, weight=1500, shard_depth=8))
        if not q: cs.append(dict(name='%s/n4und' % fn, fn=fn, kind='wei', n=4, undirected=True, weight=6000, shard_depth=10))
    for fn in ('betweenness_bin', 'edge_betweenness_bin'):
        cs.append(dict(name='%s/n3dir' % fn, fn=fn, kind='bin', n=3, weight=100, shard_depth=4))
        cs.append(dict(name='%s/n4und' % fn, fn=fn, kind='bin', n=4, undirected=True, weight=100, shard_depth=4))
        free = rnd.sample(pairs4, 6)
        fixed = {'%d_%d' % p: rnd.choice([0, 1]) for p in pairs4 if p not in free}
        cs.append(dict(name='%s/n4dir_family' % fn, fn=fn, kind='bin', n=4, fixed=fixed, weight=100, shard_depth=4))
        # stacked ties (a node reached by two shortest paths that is itself the first discoverer of a further node) need 5 nodes
        cs.append(dict(name='%s/n5und' % fn, fn=fn, kind='bin', n=5, undirected=True, weight=1500, shard_depth=6))
        pairs5 = [(a, b) for a in range(5) for b in range(5) if a != b]
        free5 = rnd.sample(pairs5, 8 if q else 11)
        fixed5 = {'%d_%d' % p: rnd.choice([0, 1]) for p in pairs5 if p not in free5}
        cs.append(dict(name='%s/n5dir_family' % fn, fn=fn, kind='bin', n=5, fixed=fixed5, weight=1000, shard_depth=6))
        if not q: cs.append(dict(name='%s/n4dir' % fn, fn=fn, kind='bin', n=4, weight=5000, shard_depth=8))
    return cs


def body(case, M):
    return {'wei': body_wei, 'bin': body_bin}[case['kind']](case, M)


def simple_paths(n, i, j):
    others = [v for v in range(n) if v not in (i, j)]
    for r in range(len(others) + 1):
        for mid in itertools.permutations(others, r):
            yield (i,) + mid + (j,)


def oracle(M, n, present, L):
    """brute-force betweenness under the current path condition: returns (BC[v], EBC[a][b], ties?, unreachable?, dist)"""
    BC = [Fraction(0)] * n; EBC = [[Fraction(0)] * n for _ in range(n)]
    tie = False; unreach = False; dist = {}
    for s in range(n):
        for t in range(n):
            if s == t: continue
            ps = [p for p in simple_paths(n, s, t) if all(present[p[k]][p[k + 1]] for k in range(len(p) - 1))]
            if not ps: unreach = True; dist[(s, t)] = None; continue
            lens = [ssum(L[p[k]][p[k + 1]] for k in range(len(p) - 1)) for p in ps]
            best = M.pick_min(lens)
            if best is None:          # undecided order: fork on it (does not happen when the routine has examined every path)
                best = lens[0]
                for x in lens[1:]:
                    if M.truth_value(sc.lt(x, best)): best = x
            sp = [p for p, ln in zip(ps, lens) if (ln is best) or M.truth_value(sc.eq(ln, best))]
            if len(sp) > 1: tie = True
            dist[(s, t)] = best
            sig = len(sp)
            for v in range(n):
                if v in (s, t): continue
                BC[v] += Fraction(sum(1 for p in sp if v in p), sig)
            for a in range(n):
                for b in range(n):
                    if a == b: continue
                    EBC[a][b] += Fraction(sum(1 for p in sp if any(p[k] == a and p[k + 1] == b for k in range(len(p) - 1))), sig)
    return BC, EBC, tie, unreach, dist


def num_eq(M, x, y):
    if M.symbolic: return sc.eq(x, y)
    return abs(float(x) - float(y)) <= 1e-9 * max(1.0, abs(float(y)))


def body_wei(case, M):
    n, fn = case['n'], case['fn']
    und = case.get('undirected', False)
    W = [[0] * n for _ in range(n)]
    for a in range(n):
        for b in range(n):
            if a == b or (und and b < a): continue
            if [a, b] in case.get('absent', []) or [b, a] in case.get('absent', []): continue
            W[a][b] = M.real('w_%d_%d' % (a, b), lo=0, hi=8, lo_open=bool(case.get('all_present')))
            if und: W[b][a] = W[a][b]
    A = M.array(W, 'f')
    cen = M.mod('centrality')
    if fn == 'betweenness_wei':
        BC = cen.betweenness_wei(A); EBC = None
    else:
        EBC, BC = cen.edge_betweenness_wei(A)
    present = [[(M.truth_value(nz(W[a][b])) if a != b else False) for b in range(n)] for a in range(n)]
    oBC, oEBC, tie, unreach, _ = oracle(M, n, present, W)
    for v in range(n):
        M.oblige('ret:node_betweenness_counts_shortest_path_fractions#%d' % v, num_eq(M, cell1(BC, v), oBC[v]))
    if EBC is not None:
        for a in range(n):
            for b in range(n):
                M.oblige('ret:edge_betweenness_counts_shortest_path_fractions#%d_%d' % (a, b), num_eq(M, cell(EBC, a, b), oEBC[a][b]))
        BC2 = cen.betweenness_wei(A)
        for v in range(n): M.oblige('ret:edge_routine_node_vector_equals_node_routine#%d' % v, num_eq(M, cell1(BC, v), cell1(BC2, v)))
    M.result('BC', BC)
    if tie: M.note('tie')
    if unreach: M.note('unreachable_pair')


def cell1(a, v):
    P = a.view(np.ndarray) if isinstance(a, np.ndarray) else a
    return P[v]


def body_bin(case, M):
    n, fn = case['n'], case['fn']
    und = case.get('undirected', False); fixed = case.get('fixed', {})
    adj = [[False] * n for _ in range(n)]
    for a in range(n):
        for b in range(n):
            if a == b or (und and b < a): continue
            key = '%d_%d' % (a, b)
            adj[a][b] = bool(fixed[key]) if key in fixed else bool(M.truth_value(M.boolean('a_' + key)))
            if und: adj[b][a] = adj[a][b]
    A = M.array([[1.0 if adj[a][b] else 0.0 for b in range(n)] for a in range(n)], 'f')
    cen = M.mod('centrality')
    if fn == 'betweenness_bin':
        BC = cen.betweenness_bin(A); EBC = None
    else:
        EBC, BC = cen.edge_betweenness_bin(A)
    ones = [[1 if adj[a][b] else 0 for b in range(n)] for a in range(n)]
    oBC, oEBC, tie, unreach, dist = oracle(M, n, adj, ones)
    for v in range(n):
        M.oblige('ret:node_betweenness_counts_shortest_path_fractions#%d' % v, num_eq(M, cell1(BC, v), oBC[v]))
    dsum = sum(d for d in dist.values() if d is not None); npairs = sum(1 for d in dist.values() if d is not None)
    M.oblige('ret:node_values_sum_to_total_of_distance_minus_one', num_eq(M, ssum(cell1(BC, v) for v in range(n)), dsum - npairs))
    if EBC is not None:
        for a in range(n):
            for b in range(n):
                M.oblige('ret:edge_betweenness_counts_shortest_path_fractions#%d_%d' % (a, b), num_eq(M, cell(EBC, a, b), oEBC[a][b]))
        M.oblige('ret:edge_values_sum_to_total_distance', num_eq(M, ssum(cell(EBC, a, b) for a in range(n) for b in range(n)), dsum))
        BC2 = cen.betweenness_bin(A)
        for v in range(n): M.oblige('ret:edge_routine_node_vector_equals_node_routine#%d' % v, num_eq(M, cell1(BC, v), cell1(BC2, v)))
    M.result('BC', BC)
    if tie: M.note('tie')
    if unreach: M.note('unreachable_pair')
