"""C05 — seeded calls are reproducible and never touch the global random stream.

Non-interference between labelled random streams.  Inside the bct modules `np.random` is a stub: touching the global
generator when a seed was given raises; constructing `RandomState(seed)` is reported.  Two modes per routine:
  rs  : seed = a RandomState-like symbolic stream; the global stream must stay untouched on every path;
  int : seed = an integer; exactly one RandomState must be constructed from it per public call (nested calls forward the
        generator object, not the seed), and the global stream must stay untouched.
Since every explored result is then a function of the arguments and of the one permitted stream, identical seeds give
identical results.  Replays run the real function: global state compared before/after, int seed vs RandomState(int)."""
import numpy as np
from fractions import Fraction
from symx import sc
from harness.common import *

PROPERTY = 'C05'
ALLOWED_EXCEPTIONS = {}
GUARDS = [dict(note='drew_from_seed_stream', min=1, why='some explored path must actually draw random numbers')]
ASSUMPTIONS = ['inputs are small concrete matrices (the property is about where randomness comes from, not about weights); every draw symbolic or forked',
               'at most 40 completed paths per (routine, mode) case', 'consensus_und, rentian_scaling, nbs_bct, generative models and the parallel NBS are not encoded',
               'determinism of MT19937 for a given seed is assumed (numpy)']
BOUNDS = {'quick': dict(n='3..4', paths_per_case=40), 'thorough': dict(paths_per_case=400)}
OPTS = {'quick': dict(witnesses_per_case=0, budget_s=200), 'thorough': dict(witnesses_per_case=0, budget_s=1500)}
F = Fraction
U4 = [[0, 1, 0, 0], [1, 0, 0, 0], [0, 0, 0, 1], [0, 0, 1, 0]]; P4 = [[0, 1, 0, 0], [1, 0, 1, 0], [0, 1, 0, 1], [0, 0, 1, 0]]
D4 = [[0, 1, 1, 0], [1, 0, 0, 0], [0, 0, 0, 1], [1, 0, 0, 0]]; WU = [[0, 3, 1, 0], [3, 0, 1, 0], [1, 1, 0, 2], [0, 0, 2, 0]]
WS = [[0, 2, -1, 0], [2, 0, 3, -2], [-1, 3, 0, 1], [0, -2, 1, 0]]; DS = [[0, 2, -1, 0], [1, 0, 3, -2], [-3, 0, 0, 1], [0, -1, 2, 0]]
S3 = [[0, 2, -1], [2, 0, 1], [-1, 1, 0]]; D3 = [[0, 1, 1], [0, 0, 1], [1, 1, 0]]
# (name, module, positional args (matrices as lists), keyword args)
ROUTINES = [
 ('randmio_und', 'reference', [U4, F(3, 4)], {}), ('randmio_dir', 'reference', [D4, F(1, 4)], {}), ('randmio_und_connected', 'reference', [P4, F(1, 2)], {}),
 ('randmio_dir_connected', 'reference', [D4, F(1, 4)], {}), ('latmio_und', 'reference', [U4, 1], {}), ('latmio_dir', 'reference', [[[0, 1, 0, 0], [0, 0, 0, 0], [0, 0, 0, 1], [0, 0, 0, 0]], 1], {}),
 ('randomize_graph_partial_und', 'reference', [U4, [[0] * 4] * 4, 1], {}), ('randomizer_bin_und', 'reference', [P4, F(1, 2)], {}),
 ('randmio_und_signed', 'reference', [WS, F(1, 4)], {}), ('randmio_dir_signed', 'reference', [DS, F(1, 8)], {}),
 ('null_model_und_sign', 'reference', [WS], {'bin_swaps': F(17, 100), 'wei_freq': 0}), ('null_model_dir_sign', 'reference', [DS], {'bin_swaps': F(17, 100), 'wei_freq': 0}),
 ('null_model_und_sign', 'reference', [S3], {'bin_swaps': 0, 'wei_freq': 1}),
 ('null_model_und_sign', 'reference', [WS], {'bin_swaps': F(17, 100), 'wei_freq': 1}), ('null_model_dir_sign', 'reference', [DS], {'bin_swaps': F(17, 100), 'wei_freq': 1}),
 ('makerandCIJ_und', 'reference', [4, 2], {}), ('makerandCIJ_dir', 'reference', [3, 2], {}), ('makeringlatticeCIJ', 'reference', [4, 6], {}), ('maketoeplitzCIJ', 'reference', [4, 2, 1], {}),
 ('makeevenCIJ', 'reference', [4, 6, 1], {}), ('makefractalCIJ', 'reference', [2, 2, 1], {}), ('makerandCIJdegreesfixed', 'reference', [[1, 1, 1], [1, 1, 1]], {}),
 ('community_louvain', 'modularity', [WU], {}), ('modularity_louvain_und', 'modularity', [[[0, 2, 1], [2, 0, 0], [1, 0, 0]]], {}), ('modularity_louvain_dir', 'modularity', [D3], {}),
 ('modularity_louvain_und_sign', 'modularity', [S3], {}), ('modularity_finetune_und', 'modularity', [WU], {}), ('modularity_finetune_dir', 'modularity', [D3], {}),
 ('modularity_finetune_und_sign', 'modularity', [S3], {}), ('modularity_probtune_und_sign', 'modularity', [S3], {}), ('core_periphery_dir', 'core', [[[0, 2, 1], [1, 0, 0], [0, 3, 0]]], {}),
 ('pick_four_unique_nodes_quickly', 'misc', [4], {}),
]
FUNCTIONS = sorted({r[0] for r in ROUTINES} | {'get_rng'})


def cases(tier, seed):
    cap = 40 if tier != 'thorough' else 400
    cs = []
    for t, (fn, mod, args, kw) in enumerate(ROUTINES):
        for mode in ('rs', 'int'):
            cs.append(dict(name='%s#%d/%s' % (fn, t, mode), fn=fn, mod=mod, args=[jsonish(a) for a in args], kw={k: jsonish(v) for k, v in kw.items()}, mode=mode, path_cap=cap, weight=10,
                           cfg=dict(concretize_index=True), optional=(fn in ('maketoeplitzCIJ',))))
    cs.append(dict(name='get_rng/contract', fn='get_rng', mod='misc', kind='get_rng', args=[], kw={}, mode='rs', weight=1))
    return cs


def jsonish(a):
    if isinstance(a, Fraction): return str(a)
    if isinstance(a, list): return [jsonish(x) for x in a]
    return a


def unj(a, M):
    if isinstance(a, str) and '/' in a:
        a = Fraction(a); return a if M.symbolic else float(a)
    if isinstance(a, list):
        if a and isinstance(a[0], list): return M.array([[(x if M.symbolic else float(x)) for x in r] for r in a], 'f')
        return M.array(list(a), 'i')
    return a


def body(case, M):
    if case.get('kind') == 'get_rng': return body_get_rng(case, M)
    fn = getattr(M.mod(case['mod']), case['fn'])
    mk = lambda: ([unj(a, M) for a in case['args']], {k: unj(v, M) for k, v in case['kw'].items()})
    if M.symbolic:
        g = M.global_stream
        ctor = []
        def hook(seed):
            r = M.rng(budget=60, stream='ctor%d' % (len(ctor) + 1), fork_perm=True, fork_int=True); ctor.append(seed); return r
        g.ctor_hook = hook; g.rng = None
        args, kw = mk()
        seedarg = M.rng(budget=60, stream='local', fork_perm=True, fork_int=True) if case['mode'] == 'rs' else 7
        touched = False
        try:
            fn(*args, seed=seedarg, **kw)
        except RuntimeError as e:
            if 'global random stream touched' not in str(e): raise
            touched = True
        finally:
            g.ctor_hook = None
        M.oblige('ret:global_stream_untouched_when_seeded', not touched)
        if case['mode'] == 'int':
            M.oblige('ret:integer_seed_builds_one_generator', len(ctor) == 1 and ctor[0] == 7, dict(constructed=len(ctor)))
        else:
            M.oblige('ret:generator_object_is_used_as_given', len(ctor) == 0, dict(constructed=len(ctor)))
        if any(r.draws for r in M.rngs): M.note('drew_from_seed_stream')
        M.note('no_witness')
    else:
        # replay on the real code: (a) in generator-object mode the explored path itself (scripted draws through the caller's
        # generator), watching numpy's global state; (b) a search over integer seeds for a run that touches the global stream
        # or is not reproducible (the branch that misbehaves may need a particular draw sequence)
        def gstate(): return np.random.get_state()
        def same(a, b): return a[0] == b[0] and np.array_equal(a[1], b[1]) and a[2:] == b[2:]
        eqr = lambda a, b: all(np.allclose(np.asarray(x, dtype=float), np.asarray(y, dtype=float), equal_nan=True) for x, y in zip(flat(a), flat(b)))
        ok_state = ok_int = ok_obj = True
        if case['mode'] == 'rs':
            try:
                r = M.rng(stream='local')
                if r.script:
                    st0 = gstate(); args, kw = mk()
                    try: fn(*args, seed=r, **kw)
                    except Exception: pass
                    ok_state = ok_state and same(st0, gstate())
            except Exception: pass
        for sd in [7] + list(range(16)):
            try:
                st0 = gstate()
                args, kw = mk(); r1 = fn(*args, seed=sd, **kw)
                ok_state = ok_state and same(st0, gstate())
                args, kw = mk(); r2 = fn(*args, seed=np.random.RandomState(sd), **kw)
                args, kw = mk(); r3 = fn(*args, seed=sd, **kw)
                ok_int = ok_int and bool(eqr(r1, r2)); ok_obj = ok_obj and bool(eqr(r1, r3))
            except Exception:
                if sd == 7: raise
        M.oblige('ret:global_stream_untouched_when_seeded', bool(ok_state))
        M.oblige('ret:integer_seed_builds_one_generator', bool(ok_int))
        M.oblige('ret:generator_object_is_used_as_given', bool(ok_obj))


def flat(x):
    if isinstance(x, tuple): return [v for p in x for v in flat(p)]
    return [x]


def body_get_rng(case, M):
    mu = M.mod('misc')
    if M.symbolic:
        g = M.global_stream
        glob = M.rng(stream='global'); g.rng = glob
        made = []
        g.ctor_hook = lambda seed: (made.append(seed), M.rng(stream='ctor%d' % len(made)))[1]
        try:
            loc = M.rng(stream='local')
            M.oblige('ret:none_gives_global_generator', mu.get_rng(None) is glob)
            M.oblige('ret:np_random_gives_global_generator', mu.get_rng(g) is glob)
            M.oblige('ret:generator_passed_through', mu.get_rng(loc) is loc and not made)
            r = mu.get_rng(11)
            M.oblige('ret:integer_seeds_a_fresh_generator', made == [11] and r is not glob and r is not loc)
        finally:
            g.ctor_hook = None; g.rng = None
        M.note('drew_from_seed_stream'); M.note('no_witness')
    else:
        M.oblige('ret:none_gives_global_generator', mu.get_rng(None) is np.random.mtrand._rand)
        M.oblige('ret:np_random_gives_global_generator', mu.get_rng(np.random) is np.random.mtrand._rand)
        rs = np.random.RandomState(3)
        M.oblige('ret:generator_passed_through', mu.get_rng(rs) is rs)
        a, b = mu.get_rng(11), np.random.RandomState(11)
        M.oblige('ret:integer_seeds_a_fresh_generator', a is not np.random.mtrand._rand and a.randint(1000) == b.randint(1000))
