"""C12 — every path the library returns is a real path with the reported length.

distance_wei_floyd on a fully symbolic length matrix (support, lengths and ties symbolic; masked views keep Floyd on one
path) followed by retrieve_shortest_path for one (s, t) per case; navigation_wu with symbolic lengths and symbolic nodal
distances."""
import itertools
from fractions import Fraction
import numpy as np
from symx import sc
from harness.common import *

PROPERTY = 'C12'
FUNCTIONS = ['distance_wei_floyd', 'retrieve_shortest_path', 'navigation_wu']
ALLOWED_EXCEPTIONS = {}
GUARDS = [dict(note='empty_path', min=1, why='some explored case must have an unreachable target'), dict(note='multi_hop_path', min=1, why='some explored path must have at least 2 hops'),
          dict(note='navigation_failed', min=1, why='some navigation must fail'), dict(note='navigation_succeeded', min=1, why='some navigation must succeed')]
ASSUMPTIONS = ['lengths are reals >= 0 with 0 = no connection (support symbolic); weights in (0,1] for log (uninterpreted -log >= 0) and > 0 for inv',
               'navigation_wu: max_hops in {1, 2, 3} (with max_hops=None the routine can cycle forever on rings of three or more nodes; not explored)',
               'one (s, t) pair per retrieve_shortest_path case; path nodes are concretised by forking']
BOUNDS = {'quick': dict(floyd='n = 3 directed (all transforms), n = 4 undirected (no transform)', navigation='n = 3 directed, max_hops 1..3'), 'thorough': dict(floyd='n = 4 directed', navigation='n = 4 undirected')}
OPTS = {'quick': dict(witnesses_per_case=3, budget_s=600), 'thorough': dict(witnesses_per_case=3, budget_s=3000)}
F = Fraction


def cases(tier, seed):
    q = False          # the full bounds cost about a minute: quick and thorough coincide
    cs = []
    L = dict(lazy_where=True)
    for tr in (None, 'inv', 'log'):
        for s, t in itertools.permutations(range(3), 2):
            cs.append(dict(name='retrieve_shortest_path/n3dir/%s/%d-%d' % (tr, s, t), fn='retrieve_shortest_path', kind='rsp', n=3, transform=tr, s=s, t=t, cfg=L, weight=20))
    pairs4 = list(itertools.permutations(range(4), 2))
    import random
    rnd = random.Random(seed)
    for s, t in (rnd.sample(pairs4, 4) if q else pairs4):
        cs.append(dict(name='retrieve_shortest_path/n4und/None/%d-%d' % (s, t), fn='retrieve_shortest_path', kind='rsp', n=4, undirected=True, transform=None, s=s, t=t, cfg=L, weight=80))
    if not q:
        for s, t in pairs4:
            cs.append(dict(name='retrieve_shortest_path/n4dir/None/%d-%d' % (s, t), fn='retrieve_shortest_path', kind='rsp', n=4, transform=None, s=s, t=t, cfg=L, weight=300, shard_depth=4))
    for mh in (1, 2, 3):
        cs.append(dict(name='navigation_wu/n3dir/max_hops%d' % mh, fn='navigation_wu', kind='nav', n=3, max_hops=mh, weight=400, shard_depth=8))
    if not q:
        for mh in (2, 3):
            cs.append(dict(name='navigation_wu/n4und/max_hops%d' % mh, fn='navigation_wu', kind='nav', n=4, undirected=True, max_hops=mh, weight=4000, shard_depth=10))
    return cs


def body(case, M):
    return {'rsp': body_rsp, 'nav': body_nav}[case['kind']](case, M)


def lengths(case, M, n, und, tr, hi=8):
    W = [[0] * n for _ in range(n)]
    for a in range(n):
        for b in range(n):
            if a == b or (und and b < a): continue
            W[a][b] = M.real('w_%d_%d' % (a, b), lo=0, hi=1 if tr == 'log' else hi)
            if und: W[b][a] = W[a][b]
    present = [[nz(W[a][b]) if a != b else False for b in range(n)] for a in range(n)]
    if tr == 'inv': L = [[(sc.ite(present[a][b], sc.div(1, sc.ite(present[a][b], W[a][b], 1)), 0) if a != b else 0) for b in range(n)] for a in range(n)]
    elif tr == 'log':
        L = [[0] * n for _ in range(n)]
        for a in range(n):
            for b in range(n):
                if a == b: continue
                if M.symbolic:
                    lg = sc.PYOPS['log'](sc.ite(present[a][b], W[a][b], 1))
                    M.assume(sc.le(lg, 0)); M.assume(eq(eq(W[a][b], 1), eq(lg, 0)))
                    L[a][b] = sc.neg(lg)
                else:
                    import math
                    L[a][b] = -math.log(W[a][b]) if W[a][b] > 0 else 0.0
    else: L = W
    return W, present, L


def body_rsp(case, M):
    n, tr, s, t = case['n'], case.get('transform'), case['s'], case['t']
    W, present, L = lengths(case, M, n, case.get('undirected', False), tr)
    A = M.array(W, 'f')
    dist = M.mod('distance')
    SPL, hops, Pmat = dist.distance_wei_floyd(A, transform=tr)
    path = dist.retrieve_shortest_path(s, t, hops, Pmat)
    nodes = [M.int_value(x) for x in (vec(np.asarray(path).reshape(-1)) if not isinstance(path, list) else path)] if len(path) else []
    spl = sc.n_(cell(SPL, s, t))
    if not nodes:
        M.oblige('ret:empty_path_iff_unreachable', sc.s_isinf(spl))
        M.note('empty_path')
    else:
        M.oblige('ret:empty_path_iff_unreachable', lnot(sc.s_isinf(spl)))
        M.oblige('ret:path_starts_at_source', nodes[0] == s)
        M.oblige('ret:path_ends_at_target', nodes[-1] == t)
        ok_nodes = all(0 <= v < n for v in nodes)
        M.oblige('ret:path_nodes_valid', ok_nodes)
        if ok_nodes:
            for k in range(len(nodes) - 1):
                M.oblige('ret:path_moves_along_existing_connections#%d' % k, present[nodes[k]][nodes[k + 1]] if nodes[k] != nodes[k + 1] else False)
            M.oblige('ret:hop_count_is_reported_hops', sc.eq(sc.n_(cell(hops, s, t)), len(nodes) - 1))
            tot = ssum(L[nodes[k]][nodes[k + 1]] for k in range(len(nodes) - 1))
            M.oblige('ret:path_length_is_reported_length', sc.eq(spl, tot) if M.symbolic else abs(float(spl) - float(tot)) <= 1e-9 * max(1.0, abs(float(tot))))
        if len(nodes) > 2: M.note('multi_hop_path')
    if tr == 'log': M.note('no_witness')
    M.result('nodes', nodes)


def body_nav(case, M):
    n, mh = case['n'], case['max_hops']
    und = case.get('undirected', False)
    W, present, L = lengths(case, M, n, und, None)
    Dn = [[0] * n for _ in range(n)]
    for a in range(n):
        for b in range(a + 1, n):
            Dn[a][b] = Dn[b][a] = M.real('d_%d_%d' % (a, b), lo=0, hi=8)
    sr, PLb, PLw, PLd, paths = M.mod('distance').navigation_wu(M.array(L, 'f'), M.array(Dn, 'f'), max_hops=mh)
    succ = 0
    for i in range(n):
        for j in range(n):
            if i == j: continue
            nodes = [M.int_value(x) for x in paths[(i, j)]]
            b, w, d = sc.n_(cell(PLb, i, j)), sc.n_(cell(PLw, i, j)), sc.n_(cell(PLd, i, j))
            failed = bool(sc.s_isinf(b)) if not M.symbolic else M.truth_value(sc.s_isinf(b))
            ok_nodes = all(0 <= v < n for v in nodes)
            M.oblige('ret:path_nodes_valid#%d_%d' % (i, j), ok_nodes and nodes[0] == i)
            if not ok_nodes: continue
            for k in range(len(nodes) - 1):
                M.oblige('ret:walk_moves_along_existing_connections#%d_%d_%d' % (i, j, k), present[nodes[k]][nodes[k + 1]] if nodes[k] != nodes[k + 1] else False)
            if failed:
                M.oblige('ret:failed_navigation_infinite_in_all_three#%d_%d' % (i, j), land(sc.s_isinf(w), sc.s_isinf(d)))
                M.note('navigation_failed')
            else:
                succ += 1
                M.oblige('ret:successful_walk_ends_at_target#%d_%d' % (i, j), nodes[-1] == j)
                M.oblige('ret:hop_count#%d_%d' % (i, j), sc.eq(b, len(nodes) - 1))
                M.oblige('ret:summed_connection_length#%d_%d' % (i, j), M.close(w, ssum(L[nodes[k]][nodes[k + 1]] for k in range(len(nodes) - 1)), tol=0 if M.symbolic else F(1, 10**9)))
                M.oblige('ret:summed_internode_distance#%d_%d' % (i, j), M.close(d, ssum(Dn[nodes[k]][nodes[k + 1]] for k in range(len(nodes) - 1)), tol=0 if M.symbolic else F(1, 10**9)))
                M.note('navigation_succeeded')
    # sr is computed by the routine with plain python ints (len(...) / (n**2 - n)): a concrete double in both modes
    M.oblige('ret:success_ratio', abs(float(sr) - succ / (n * n - n)) <= 1e-12)
    M.result('sr', sr)
